#!/bin/bash
# MANIFEST.setup_cmd: make sure hypothesis imports in the repository's venv and
# pre-build the generated-code cache for the current /repo tree. Offline only.
cd "$(dirname "$0")" || exit 2
PY=${VERIF_PYTHON:-/venv/bin/python}
if ! "$PY" -c "import hypothesis" 2>/dev/null; then
    /venv/bin/pip install --no-index --find-links /opt/veriftools/wheels hypothesis || exit 2
fi
chmod +x check
export PYTHONPATH="$PWD"
"$PY" -m vf.sandbox || exit 2
echo "setup ok"
