"""G-net: static networks, constructed (not filtered). Plain-JSON cases (see vf.oracle.pf)."""
from hypothesis import strategies as st

KV = [13.8, 20.0, 110.0, 230.0, 500.0]


def _r(x, nd=6):
    return float(round(x, nd))


@st.composite
def networks(draw, max_buses=10, allow_islands=False, allow_bus_off=False, dense=True,
             asym=True, taps=True, bases=True, offline=True, second_load=True):
    nb = draw(st.integers(2, max_buses))
    mva = draw(st.sampled_from([100.0, 100.0, 50.0, 1000.0])) if bases else 100.0
    idx_style = draw(st.sampled_from(['int', 'str', 'mixed']))
    scale = min(1.0, 2.5 / nb)

    def mkidx(prefix, k, force=None):
        style = force or idx_style
        if style == 'mixed':
            style = 'int' if draw(st.booleans()) else 'str'
        if style == 'int':
            return k
        return '%s_%d' % (prefix, k)

    # --- buses -------------------------------------------------------------
    bus_nums = draw(st.permutations(list(range(1, nb + 1))))
    offset = draw(st.sampled_from([0, 0, 10, 100]))
    buses = []
    for k in range(nb):
        buses.append(dict(idx=mkidx('B', bus_nums[k] + offset), Vn=draw(st.sampled_from(KV)),
                          v0=1.0, a0=0.0, u=1))
    bidx = [b['idx'] for b in buses]
    kv = {b['idx']: b['Vn'] for b in buses}

    # --- branches: spanning tree + extras (parallels allowed) ----------------
    pairs = []
    for i in range(1, nb):
        p = draw(st.integers(0, i - 1))
        pairs.append((p, i, True))
    n_extra = draw(st.integers(0, nb if dense else 1))
    for _ in range(n_extra):
        a = draw(st.integers(0, nb - 1))
        b = draw(st.integers(0, nb - 2))
        if b >= a:
            b += 1
        pairs.append((a, b, False))

    lines = []
    for k, (a, b, tree) in enumerate(pairs):
        if draw(st.booleans()):
            a, b = b, a
        b1, b2 = bidx[a], bidx[b]
        Sn = draw(st.sampled_from([mva, mva, 50.0, 75.0, 200.0, 900.0])) if bases else mva
        Vn1 = kv[b1]
        if bases and draw(st.integers(0, 4)) == 0:
            Vn1 = _r(kv[b1] * draw(st.sampled_from([0.95, 1.05, 1.1])))
        kz = (Vn1 ** 2 / Sn) / (kv[b1] ** 2 / mva)      # device -> system for impedances
        x_sys = draw(st.floats(0.01, 0.4))
        rx = draw(st.sampled_from([0.0, 0.1, 0.3, 0.6]))
        ln = dict(idx=mkidx('L', k + 1), bus1=b1, bus2=b2, Sn=Sn, Vn1=Vn1, Vn2=kv[b2],
                  x=x_sys / kz, r=x_sys * rx / kz,
                  b=0.0, g=0.0, b1=0.0, g1=0.0, b2=0.0, g2=0.0, tap=1.0, phi=0.0, u=1)
        if draw(st.booleans()):
            ln['b'] = draw(st.floats(0.0, 0.2)) * kz
        if draw(st.integers(0, 5)) == 0:
            ln['g'] = draw(st.floats(0.0, 0.02)) * kz
        if asym and draw(st.integers(0, 2)) == 0:
            ln['b1'] = draw(st.floats(-0.05, 0.15)) * kz
            ln['b2'] = draw(st.floats(-0.05, 0.15)) * kz
            if draw(st.booleans()):
                ln['g1'] = draw(st.floats(0.0, 0.03)) * kz
                ln['g2'] = draw(st.floats(0.0, 0.03)) * kz
        if taps and draw(st.integers(0, 2)) == 0:
            ln['tap'] = _r(draw(st.floats(0.85, 1.15)), 4)
            if draw(st.booleans()):
                ln['phi'] = _r(draw(st.floats(-0.4, 0.4)), 4)
        if not tree and offline and draw(st.integers(0, 3)) == 0:
            ln['u'] = 0
        lines.append(ln)

    # --- generators -------------------------------------------------------------
    slack_pos = draw(st.integers(0, nb - 1))
    gcount = [0]

    def gen(kind, pos, u):
        gcount[0] += 1
        Sn = draw(st.sampled_from([mva, 50.0, 200.0, 900.0])) if bases else mva
        g = dict(idx=mkidx('G', gcount[0]), bus=bidx[pos], Sn=Sn, Vn=kv[bidx[pos]],
                 p0=_r(draw(st.floats(0.0, 0.8)) * scale), q0=0.0,
                 v0=_r(draw(st.floats(0.98, 1.05)), 4), u=u)
        if kind == 'slack':
            g['a0'] = draw(st.sampled_from([0.0, 0.0, 0.1, -0.25]))
        return g

    slacks = [gen('slack', slack_pos, 1)]
    pvs = []
    for pos in range(nb):
        if pos == slack_pos:
            continue
        if draw(st.integers(0, 9)) < 3:
            pvs.append(gen('pv', pos, 1))
    if offline:
        for _ in range(draw(st.integers(0, 2))):
            pvs.append(gen('pv', draw(st.integers(0, nb - 1)), 0))
        if draw(st.integers(0, 4)) == 0:
            slacks.append(gen('slack', draw(st.integers(0, nb - 1)), 0))

    # --- loads and shunts ----------------------------------------------------------
    pqs, shunts = [], []
    k = 0
    for pos in range(nb):
        nl = draw(st.sampled_from([0, 1, 1, 1, 2, 3] if second_load else [0, 1, 1]))
        for _ in range(nl):
            k += 1
            p = _r(draw(st.floats(0.0, 0.6)) * scale)
            q = _r(p * draw(st.floats(-0.2, 0.5)))
            shape = draw(st.integers(0, 9))
            if shape == 0:        # purely reactive load (compensation modelled as a load)
                p, q = 0.0, _r(draw(st.floats(-0.2, 0.3)) * scale)
            elif shape == 1:      # purely active load
                q = 0.0
            u = 0 if (offline and draw(st.integers(0, 7)) == 0) else 1
            pqs.append(dict(idx=mkidx('PQ', k), bus=bidx[pos], Vn=kv[bidx[pos]], p0=p, q0=q,
                            vmin=0.8, vmax=1.2, u=u))
    k = 0
    for pos in range(nb):
        if draw(st.integers(0, 5)) == 0:
            k += 1
            Sn = draw(st.sampled_from([mva, 50.0, 200.0])) if bases else mva
            Vn = kv[bidx[pos]]
            if bases and draw(st.integers(0, 3)) == 0:
                Vn = _r(Vn * 1.05)
            ky = (kv[bidx[pos]] ** 2 / mva) / (Vn ** 2 / Sn)
            u = 0 if (offline and draw(st.integers(0, 5)) == 0) else 1
            shunts.append(dict(idx=mkidx('SH', k), bus=bidx[pos], Sn=Sn, Vn=Vn,
                               g=draw(st.sampled_from([0.0, 0.0, 0.01])) / ky,
                               b=draw(st.floats(-0.1, 0.2)) / ky, u=u))

    case = dict(mva=mva, buses=buses, lines=lines, shunts=shunts, pqs=pqs, pvs=pvs, slacks=slacks,
                idx_style=idx_style)
    # insertion order: a permutation per model list, and a permutation of the model blocks
    case['order'] = {k: draw(st.permutations(list(range(len(case[k])))))
                     for k in ('buses', 'lines', 'shunts', 'pqs', 'pvs', 'slacks')}
    case['model_order'] = draw(st.permutations(['buses', 'lines', 'shunts', 'pqs', 'pvs', 'slacks']))
    return case


def features(case):
    """Class labels of a network (for the evidence histogram and the non-triviality rule)."""
    f = set()
    seen = {}
    for ln in case['lines']:
        if ln['b1'] != ln['b2'] or ln['g1'] != ln['g2']:
            f.add('asym_shunt')
        if ln['tap'] != 1.0:
            f.add('tap')
        if ln['phi'] != 0.0:
            f.add('phase_shifter')
        if ln['Sn'] != case['mva']:
            f.add('branch_base')
        kvb = [b['Vn'] for b in case['buses'] if b['idx'] == ln['bus1']][0]
        if ln['Vn1'] != kvb:
            f.add('offnominal_vn1')
        key = frozenset([str(ln['bus1']), str(ln['bus2'])])
        seen[key] = seen.get(key, 0) + 1
        if not ln['u']:
            f.add('offline_line')
    if any(v > 1 for v in seen.values()):
        f.add('parallel')
    per_bus = {}
    for pq in case['pqs']:
        per_bus[str(pq['bus'])] = per_bus.get(str(pq['bus']), 0) + 1
        if not pq['u']:
            f.add('offline_load')
        if pq['p0'] == 0 and pq['q0'] != 0:
            f.add('reactive_only_load')
    if any(v > 1 for v in per_bus.values()):
        f.add('multi_load_bus')
    if any(not g['u'] for g in case['pvs'] + case['slacks']):
        f.add('offline_gen')
    if any(not s['u'] for s in case['shunts']):
        f.add('offline_shunt')
    if case['shunts']:
        f.add('shunt')
    if case['mva'] != 100.0:
        f.add('sysbase')
    if any(g['Sn'] != case['mva'] for g in case['pvs'] + case['slacks']):
        f.add('gen_base')
    f.add('idx_' + case.get('idx_style', 'int'))
    return f
