"""Fabricated-model harness (C02, C03a): drive every shipped model through its real call path
(name-based argument lookup, generated function, positional binding to variables) with arbitrary
argument values, without needing a consistent power-system case."""
import numpy as np

_sys = {}


def bare_system():
    if 'ss' not in _sys:
        from . import build
        _sys['ss'] = build.new_system()
    return _sys['ss']


def input_spec(model):
    """[(name, kind)] for every symbol the generated functions of ``model`` may receive.

    kind in {'param', 'service', 'cservice' (complex), 'flag', 'var', 'config', 'scalar'}"""
    spec = []
    seen = set()

    def add(name, kind):
        if name not in seen:
            seen.add(name)
            spec.append((name, kind))

    for inst in model.num_params.values():
        add(inst.name, 'param')
    for grp in (model.services, model.services_ext, model.services_ops):
        for inst in grp.values():
            add(inst.name, 'cservice' if getattr(inst, 'vtype', float) == complex else 'service')
    for inst in model.discrete.values():
        for nm in inst.get_names():
            add(nm, 'flag')
    for inst in model.cache.all_vars.values():
        add(inst.name, 'var')
    for key, val in model.config.as_dict(refresh=True).items():
        if isinstance(val, (int, float)) and not isinstance(val, bool):
            add(key, 'config')
    for nm in ('sys_f', 'sys_mva', 'dae_t'):
        add(nm, 'scalar')
    # any other declared symbol (services_var etc. are in model.services already)
    for nm in model.cache.all_params_names:
        add(nm, 'param')
    return spec


def flag_groups(model):
    """Groups of flag names that are mutually exclusive in reality (one-hot), per discrete instance."""
    groups = []
    for inst in model.discrete.values():
        names = inst.get_names()
        flags = list(inst.export_flags)
        g = []
        for nm, fl in zip(names, flags):
            g.append((nm, fl))
        groups.append((inst.__class__.__name__, g))
    return groups


def install(model, values, N):
    """Put ``values`` (name -> array/scalar) where the model's call path reads them."""
    model.n = N
    model._input.clear()
    for name, _ in input_spec(model):
        if name in values:
            model._input[name] = values[name]
    for key, val in model.config.as_dict(refresh=True).items():
        if key not in model._input:
            model._input[key] = np.array(val)
    model._input['__zeros'] = np.zeros(N)
    model._input['__ones'] = np.ones(N)
    model._input['__falses'] = np.full(N, False)
    model._input['__trues'] = np.full(N, True)
    model.refresh_inputs_arg()              # name-based lookup (code under test)
    for var in model.cache.all_vars.values():
        var.e = np.zeros(N)


def uninstall(model):
    model.n = 0
    for var in model.cache.all_vars.values():
        var.e = np.array([])
    model._input.clear()
    model._input_z.clear()


def run_fg(model):
    """Execute the generated residual functions through Model.f_update/g_update; return {var: e}."""
    saved = (model.flags.f_num, model.flags.g_num)
    blocks = [(b, b.flags.f_num, b.flags.g_num) for b in model.blocks.values()]
    # hand-written numeric hooks have no declared string; they are outside this oracle
    model.flags.f_num = model.flags.g_num = False
    for b, _, _ in blocks:
        b.flags.f_num = b.flags.g_num = False
    try:
        model.f_update()
        model.g_update()
    finally:
        model.flags.f_num, model.flags.g_num = saved
        for b, f, g in blocks:
            b.flags.f_num, b.flags.g_num = f, g
    return {name: np.array(var.e, copy=True) for name, var in model.cache.all_vars.items()}
