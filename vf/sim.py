"""Shared observation of a time-domain simulation (C04, C06, C09, C14, C15).

Uses only extension points ANDES offers or per-instance wrapping of bound methods:
``TDS.callpert`` (called before every step attempt), ``dae.store`` (every stored step) and
``TimerParam.callback`` (every event dispatch).
"""
import numpy as np


def declared_time_constants(ss):
    """Time constant of every differential equation as declared by the owning model *now*: the value array of the
    parameter / service named as ``t_const`` of each state (1 where none is declared), gathered per device through the
    state's own addresses.  Independent of dae.Tf and of the integrator's mass matrix, which are copies ANDES maintains."""
    T = np.ones(ss.dae.n)
    for mdl in ss.models.values():
        if mdl.n == 0:
            continue
        for var in list(mdl.states.values()) + list(mdl.states_ext.values()):
            tc = getattr(var, 't_const', None)
            if tc is None or len(np.atleast_1d(var.a)) == 0:
                continue
            a = np.asarray(var.a, dtype=int)
            v = np.asarray(tc.v, dtype=float)
            if a.max(initial=-1) < ss.dae.n and len(v) == len(a):
                T[a] = v
    return T


class Monitor:
    def __init__(self, ss, keep_vectors=True):
        self.ss = ss
        self.keep = keep_vectors
        self.attempts = []     # one per call of callpert: the state at the *start* of an attempt
        self.stored = []       # one per dae.store(): the accepted point
        self.firings = []      # one per timer dispatch with any is_time True
        self.dispatches = 0
        self.watch = {}        # name -> callable, sampled at every stored step
        self.log = []          # ('a', attempt) / ('s', stored) in call order
        self.want_rowsum = False
        self._attached = False

    # -- wiring -----------------------------------------------------------------------------------
    def attach(self):
        if self._attached:
            return self
        ss = self.ss
        ss.TDS.callpert = self.on_attempt
        orig_store = ss.dae.store
        mon = self

        def store(*a, **k):
            mon.on_store()
            return orig_store(*a, **k)
        ss.dae.store = store
        self._orig_store = orig_store
        for mname, mdl in ss.models.items():
            if mdl.n == 0:
                continue
            for tname, timer in mdl.timer_params.items():
                if timer.callback is None:
                    continue
                timer.callback = self._wrap_timer(mname, tname, timer, timer.callback)
        self._attached = True
        return self

    def detach(self):
        """Remove the wrappers (needed before pickling the system)."""
        ss = self.ss
        if not self._attached:
            return
        ss.TDS.callpert = None
        try:
            del ss.dae.__dict__['store']
        except KeyError:
            pass
        for mdl in ss.models.values():
            for timer in mdl.timer_params.values():
                cb = timer.callback
                if cb is not None and hasattr(cb, '_verif_orig'):
                    timer.callback = cb._verif_orig
        self._attached = False

    def _wrap_timer(self, mname, tname, timer, orig):
        mon = self

        def cb(is_time):
            mon.dispatches += 1
            it = np.array(is_time, dtype=bool).copy()
            if it.any():
                mdl = mon.ss.models[mname]
                rec = dict(model=mname, timer=tname, t=float(mon.ss.dae.t), which=[int(k) for k in np.nonzero(it)[0]],
                           idx=[mdl.idx.v[int(k)] for k in np.nonzero(it)[0]],
                           enabled=[int(mdl.u.v[int(k)]) for k in np.nonzero(it)[0]],
                           kcount=int(mon.ss.dae.kcount) if hasattr(mon.ss.dae, 'kcount') else -1)
                mon.firings.append(rec)
            return orig(is_time)
        cb._verif_orig = orig
        return cb

    # -- callbacks --------------------------------------------------------------------------------
    def on_attempt(self, t, system):
        tds = system.TDS
        dae = system.dae
        rec = dict(t=float(dae.t), h=float(tds.h), prev_converged=bool(tds.converged), niter=int(tds.niter),
                   busted=bool(tds.busted))
        if self.keep:
            rec['x'] = dae.x.copy()
            rec['y'] = dae.y.copy()
            rec['f'] = dae.f.copy()
        self.attempts.append(rec)
        self.log.append(('a', rec))

    def on_store(self):
        dae = self.ss.dae
        tds = self.ss.TDS
        # chatter: the step was accepted by ANDES' chattering rule (increment still oscillating above 1e-4), not by the
        # tolerance test
        rec = dict(t=float(dae.t), h=float(tds.h), niter=int(tds.niter), chatter=bool(getattr(tds, 'chatter', False)))
        if self.keep:
            rec['x'] = dae.x.copy()
            rec['y'] = dae.y.copy()
            rec['f'] = dae.f.copy()
            rec['g'] = dae.g.copy()
            # time constants the models declare at this accepted point (not ANDES' cached copies dae.Tf / TDS.Teye)
            try:
                rec['Tf'] = declared_time_constants(self.ss)
            except Exception:
                rec['Tf'] = np.array(dae.Tf, dtype=float)
        if self.watch:
            rec['watch'] = {k: fn() for k, fn in self.watch.items()}
        if self.want_rowsum and tds.Ac is not None:
            n = dae.n + dae.m
            rs = np.zeros(n)
            Ac = tds.Ac
            np.add.at(rs, np.array(list(Ac.I), dtype=int), np.abs(np.array(list(Ac.V), dtype=float)))
            rec['rowsum'] = rs
            peg = []
            for item in self.ss.antiwindups:
                for key, _, _ in item.x_set:
                    peg.extend(int(k) for k in np.atleast_1d(key))
            rec['pegged'] = peg
        self.stored.append(rec)
        self.log.append(('s', rec))

    # -- derived ----------------------------------------------------------------------------------
    def stored_times(self):
        return [r['t'] for r in self.stored]

    def rejected(self):
        """Attempts that follow a non-converged attempt."""
        return [k for k in range(1, len(self.attempts)) if not self.attempts[k]['prev_converged']]


def add_events(ss, events):
    """Add timed events (plain dicts) to a system that has not been set up."""
    for k, e in enumerate(events):
        kind = e['kind']
        if kind == 'toggle':
            ss.add('Toggle', dict(idx='VT%d' % k, model=e['model'], dev=e['dev'], t=e['t'], u=e.get('u', 1)))
        elif kind == 'fault':
            d = dict(idx='VF%d' % k, bus=e['bus'], tf=e['t'], u=e.get('u', 1), xf=e.get('xf', 0.05))
            if e.get('tc') is not None:
                d['tc'] = e['tc']
            ss.add('Fault', d)
        elif kind == 'alter':
            ss.add('Alter', dict(idx='VA%d' % k, model=e['model'], dev=e['dev'], src=e['src'], attr=e.get('attr', 'v'),
                                 method=e['method'], amount=e['amount'], t=e['t'], u=e.get('u', 1)))
        else:
            raise ValueError(kind)
