"""O-pf: complex nodal power balance computed from the *input* data of a case.

Written from the physics (pi-model on each branch's own base, MATPOWER-style
transformer on the from side).  Imports nothing from ANDES.

Case format (plain JSON):
  mva, buses[{idx,Vn,v0,a0}], lines[{idx,bus1,bus2,Sn,Vn1,Vn2,r,x,b,g,b1,g1,b2,g2,tap,phi,u}],
  shunts[{idx,bus,Sn,Vn,g,b,u}], pqs[{idx,bus,Vn,p0,q0,vmin,vmax,u}],
  pvs[{idx,bus,Sn,Vn,p0,q0,v0,u}], slacks[{...,a0}]
"""
import cmath
import math

import numpy as np

REG = 1e-8   # documented regularisation added by Line to r and x (system base)


def bus_index(case):
    return {b['idx'] if not isinstance(b['idx'], list) else tuple(b['idx']): k for k, b in enumerate(case['buses'])}


def branch_admittances(case, ln, kv):
    """Return (Yff, Yft, Ytf, Ytt, ys) of one branch in system per unit."""
    Sb = case['mva']
    Vb1 = kv[ln['bus1']]
    Zn = ln['Vn1'] ** 2 / ln['Sn']
    Zb = Vb1 ** 2 / Sb
    kz = Zn / Zb
    ky = Zb / Zn
    r, x = ln['r'] * kz, ln['x'] * kz
    ys = 1.0 / complex(r, x)
    yh = complex(ln['g1'] + 0.5 * ln['g'], ln['b1'] + 0.5 * ln['b']) * ky
    yk = complex(ln['g2'] + 0.5 * ln['g'], ln['b2'] + 0.5 * ln['b']) * ky
    t = ln['tap'] * cmath.exp(1j * ln['phi'])
    Yff = (ys + yh) / (abs(t) ** 2)
    Yft = -ys / t.conjugate()
    Ytf = -ys / t
    Ytt = ys + yk
    return Yff, Yft, Ytf, Ytt, ys, t


def ybus(case):
    bi = bus_index(case)
    kv = {b['idx']: b['Vn'] for b in case['buses']}
    n = len(bi)
    Y = np.zeros((n, n), dtype=complex)
    for ln in case['lines']:
        if not ln['u']:
            continue
        f, t = bi[ln['bus1']], bi[ln['bus2']]
        Yff, Yft, Ytf, Ytt, _, _ = branch_admittances(case, ln, kv)
        Y[f, f] += Yff
        Y[f, t] += Yft
        Y[t, f] += Ytf
        Y[t, t] += Ytt
    for sh in case['shunts']:
        if not sh['u']:
            continue
        k = bi[sh['bus']]
        Zn = sh['Vn'] ** 2 / sh['Sn']
        Zb = kv[sh['bus']] ** 2 / case['mva']
        Y[k, k] += complex(sh['g'], sh['b']) * (Zb / Zn)
    return Y


def load_power(pq, v, pq2z=True):
    """Documented PQ characteristic during power flow: constant power inside
    [vmin, vmax], constant impedance (fixed at the bound) outside when pq2z=1."""
    if not pq['u']:
        return 0j, 'off'
    p, q = pq['p0'], pq['q0']
    if pq2z and v < pq['vmin']:
        k = (v / pq['vmin']) ** 2
        return complex(p, q) * k, 'zl'
    if pq2z and v > pq['vmax']:
        k = (v / pq['vmax']) ** 2
        return complex(p, q) * k, 'zu'
    return complex(p, q), 'p'


def mismatch(case, V, gen_pq, pq2z=True):
    """Complex mismatch  S_gen - S_load - V conj(Y V)  per bus.

    V: complex vector in bus order; gen_pq: {('PV'|'Slack', idx): (p, q)} as reported.
    Also returns the regularisation allowance per bus and the load modes seen.
    """
    bi = bus_index(case)
    kv = {b['idx']: b['Vn'] for b in case['buses']}
    Y = ybus(case)
    S = V * np.conj(Y @ V)           # power leaving each bus through the network
    inj = np.zeros(len(bi), dtype=complex)
    modes = {}
    for pq in case['pqs']:
        k = bi[pq['bus']]
        s, mode = load_power(pq, abs(V[k]), pq2z)
        modes[mode] = modes.get(mode, 0) + 1
        inj[k] -= s
    for kind in ('pvs', 'slacks'):
        for g in case[kind]:
            if not g['u']:
                continue
            p, q = gen_pq[(kind, _key(g['idx']))]
            inj[bi[g['bus']]] += complex(p, q)
    reg = np.zeros(len(bi))
    for ln in case['lines']:
        if not ln['u']:
            continue
        f, t = bi[ln['bus1']], bi[ln['bus2']]
        _, _, _, _, ys, tt = branch_admittances(case, ln, kv)
        dv = abs(V[f] / tt - V[t])
        d = abs(ys) ** 2 * math.sqrt(2) * REG * dv
        reg[f] += d * abs(V[f]) / abs(tt)
        reg[t] += d * abs(V[t])
    return inj - S, reg, modes


def _key(idx):
    return idx if not isinstance(idx, list) else tuple(idx)


# ---------------------------------------------------------------------------
# A small dense Newton power flow, used only to decide "well-posed within normal loading"
# ---------------------------------------------------------------------------

def newton_pf(case, tol=1e-10, max_iter=30):
    """Flat-start NR on constant-power loads. Returns (ok, V, info)."""
    bi = bus_index(case)
    n = len(bi)
    Y = ybus(case)
    pv_bus, sl_bus = {}, {}
    for g in case['pvs']:
        if g['u']:
            pv_bus.setdefault(bi[g['bus']], []).append(g)
    for g in case['slacks']:
        if g['u']:
            sl_bus.setdefault(bi[g['bus']], []).append(g)
    if len(sl_bus) != 1 or any(len(v) > 1 for v in pv_bus.values()) or any(len(v) > 1 for v in sl_bus.values()):
        return False, None, 'not exactly one online slack / several controllers on a bus'
    if set(pv_bus) & set(sl_bus):
        return False, None, 'pv and slack on one bus'
    Psp = np.zeros(n)
    Qsp = np.zeros(n)
    for pq in case['pqs']:
        if pq['u']:
            Psp[bi[pq['bus']]] -= pq['p0']
            Qsp[bi[pq['bus']]] -= pq['q0']
    vm = np.ones(n)
    va = np.zeros(n)
    for k, gs in pv_bus.items():
        Psp[k] += gs[0]['p0']
        vm[k] = gs[0]['v0']
    for k, gs in sl_bus.items():
        vm[k] = gs[0]['v0']
        va[k] = gs[0]['a0']
    sl = list(sl_bus)
    pvs = sorted(pv_bus)
    pqb = [k for k in range(n) if k not in pv_bus and k not in sl_bus]
    ia = pvs + pqb            # angle unknowns
    iv = pqb                  # magnitude unknowns
    for it in range(max_iter):
        V = vm * np.exp(1j * va)
        I = Y @ V
        S = V * np.conj(I)
        dP = (Psp - S.real)[ia]
        dQ = (Qsp - S.imag)[iv]
        F = np.concatenate([dP, dQ])
        if not np.all(np.isfinite(F)):
            return False, None, 'nan'
        if np.max(np.abs(F)) < tol if len(F) else True:
            return True, V, dict(iters=it)
        dS_dVa = 1j * np.diag(V) @ np.conj(np.diag(I) - Y @ np.diag(V))
        dS_dVm = np.diag(V) @ np.conj(Y @ np.diag(V / vm)) + np.diag(np.conj(I) * (V / vm))
        J = np.block([[dS_dVa.real[np.ix_(ia, ia)], dS_dVm.real[np.ix_(ia, iv)]],
                      [dS_dVa.imag[np.ix_(iv, ia)], dS_dVm.imag[np.ix_(iv, iv)]]])
        try:
            dx = np.linalg.solve(J, F)
        except np.linalg.LinAlgError:
            return False, None, 'singular'
        va[ia] += dx[:len(ia)]
        vm[iv] += dx[len(ia):]
        if np.any(vm <= 0.05) or np.any(np.abs(dx) > 1e3):
            return False, None, 'diverged'
    return False, None, 'max_iter'


def components(case):
    """Connected components (by in-service branches) as lists of bus positions."""
    bi = bus_index(case)
    parent = list(range(len(bi)))

    def find(a):
        while parent[a] != a:
            parent[a] = parent[parent[a]]
            a = parent[a]
        return a
    deg = [0] * len(bi)
    for ln in case['lines']:
        if ln['u']:
            a, b = bi[ln['bus1']], bi[ln['bus2']]
            deg[a] += 1
            deg[b] += 1
            parent[find(a)] = find(b)
    comps = {}
    for k in range(len(bi)):
        comps.setdefault(find(k), []).append(k)
    return list(comps.values()), deg
