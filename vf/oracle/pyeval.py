"""O-eval: evaluate a declared equation string directly with the Python parser.

Bypasses sympy, lambdify, the numpy printer, the select/Indicator source patching and the
argument-list machinery of ANDES.  Vectorised over devices with numpy; the same strings can be
evaluated with exact ``Fraction`` scalars (see blocks_tf).
"""
import ast
import math

import numpy as np


def _b(x):
    return np.asarray(x)


def Piecewise(*pairs, evaluate=None):
    """First true condition wins; NaN when none holds (sympy semantics)."""
    exprs = [p[0] for p in pairs]
    conds = [p[1] for p in pairs]
    shape = np.broadcast(*[np.asarray(e) for e in exprs], *[np.asarray(c) for c in conds]).shape
    dtype = np.result_type(*[np.asarray(e).dtype for e in exprs], float)
    out = np.full(shape, np.nan, dtype=dtype)
    done = np.zeros(shape, dtype=bool)
    for e, c in zip(exprs, conds):
        c = np.broadcast_to(np.asarray(c, dtype=bool), shape)
        e = np.broadcast_to(np.asarray(e, dtype=dtype), shape)
        take = c & ~done
        out = np.where(take, e, out)
        done |= c
    return out


def Indicator(c):
    return np.asarray(c).astype(float) if np.asarray(c).dtype == bool else np.asarray(c)


def safe_div(a, b):
    a = np.asarray(a, dtype=np.result_type(np.asarray(a).dtype, float))
    b = np.asarray(b)
    a, b = np.broadcast_arrays(a, b)
    out = np.zeros_like(a)
    nz = b != 0
    out[nz] = a[nz] / b[nz]
    return out


def _sqrt(x):
    x = np.asarray(x)
    if np.iscomplexobj(x):
        return np.sqrt(x)
    with np.errstate(all='ignore'):
        return np.sqrt(x.astype(float))


FUNCS = dict(
    Piecewise=Piecewise, Indicator=Indicator, safe_div=safe_div,
    re=lambda z: np.real(z), im=lambda z: np.imag(z), conj=lambda z: np.conj(z),
    abs=lambda z: np.abs(z), Abs=lambda z: np.abs(z), arg=lambda z: np.angle(z),
    sqrt=_sqrt, exp=lambda x: np.exp(x), log=lambda x: np.log(x),
    sin=lambda x: np.sin(x), cos=lambda x: np.cos(x), tan=lambda x: np.tan(x),
    atan=lambda x: np.arctan(x), atan2=lambda y, x: np.arctan2(y, x),
    asin=lambda x: np.arcsin(x), acos=lambda x: np.arccos(x),
    radians=lambda x: np.asarray(x) * (math.pi / 180.0), rad=lambda x: np.asarray(x) * (math.pi / 180.0),
    Le=lambda a, b: np.asarray(a) <= np.asarray(b), Lt=lambda a, b: np.asarray(a) < np.asarray(b),
    Ge=lambda a, b: np.asarray(a) >= np.asarray(b), Gt=lambda a, b: np.asarray(a) > np.asarray(b),
    Eq=lambda a, b: np.asarray(a) == np.asarray(b), Ne=lambda a, b: np.asarray(a) != np.asarray(b),
    pi=math.pi, Min=lambda *a: np.minimum.reduce([np.asarray(x) for x in a]),
    Max=lambda *a: np.maximum.reduce([np.asarray(x) for x in a]),
    sign=lambda x: np.sign(x), I=1j, E=math.e, true=True, false=False,
)


_code_cache = {}


def names_in(expr):
    """Free identifiers of an expression string (excluding called function names that are FUNCS)."""
    tree = _parse(expr)
    out = set()
    for node in ast.walk(tree):
        if isinstance(node, ast.Name):
            out.add(node.id)
    return out


def _parse(expr):
    src = ' '.join(str(expr).split())
    return ast.parse(src, mode='eval')


def compile_expr(expr):
    key = str(expr)
    c = _code_cache.get(key)
    if c is None:
        c = compile(_parse(expr), '<declared>', 'eval')
        _code_cache[key] = c
    return c


class Namespace(dict):
    """values first (model symbols shadow function names, as sympify's ``locals`` do), then FUNCS;
    SubsService names are evaluated lazily from their own string."""

    def __init__(self, values, subs=None):
        super().__init__(values)
        self.subs = subs or {}

    def __missing__(self, key):
        if key in self.subs:
            v = evaluate(self.subs[key], self)
            self[key] = v
            return v
        if key in FUNCS:
            return FUNCS[key]
        raise KeyError(key)


def evaluate(expr, ns):
    with np.errstate(all='ignore'):
        return eval(compile_expr(expr), {'__builtins__': {}}, ns)
