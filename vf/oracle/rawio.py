"""O-raw / O-mpc: independent readers and writers for PSS/E RAW v33 (static sections) and MATPOWER .m.

Both directions use the plain-JSON network format of vf.oracle.pf ("net").  No ANDES import.
The RAW semantics follow the PSS/E v33 data-format description:
  loads      PL,QL constant power, IP,IQ constant current, YP,YQ constant admittance (YQ positive = capacitive);
  branches   R,X,B total charging, GI,BI / GJ,BJ line shunts at the from / to end (p.u. on system base);
  2-winding  CW=1 WINDV in p.u. of bus base kV, CW=2 in kV, CW=3 in p.u. of NOMV; CZ=1 impedance on the system MVA base, CZ=2 on SBASE1-2,
             both on the winding-1 voltage base (NOMV1, or the bus kV if NOMV1 = 0); MAG1/MAG2 with CM=1 are G/B p.u. on system base;
             the effective complex ratio from bus I to bus J is (t1/t2) * exp(j ANG1).
"""
import math
import re

DEG = math.pi / 180.0


def _num(s):
    s = s.strip().strip("'").strip()
    try:
        return int(s)
    except ValueError:
        try:
            return float(s)
        except ValueError:
            return s


# ---------------------------------------------------------------------------------------------
# RAW
# ---------------------------------------------------------------------------------------------

def read_raw(text):
    """Return a net dict (system-base values for branches/shunts; device bases = system base)."""
    lines = text.splitlines()
    head = lines[0].split('/')[0].split(',')
    mva = float(head[1])
    sections = [[]]
    for ln in lines[3:]:
        s = ln.strip()
        if s.startswith('Q'):
            break
        if s.startswith('0 ') or s == '0' or s.startswith('0/') or s.startswith('0 /'):
            sections.append([])
            continue
        sections[-1].append([_num(x) for x in s.split('/')[0].split(',')] if "'" not in s else
                            [_num(x) for x in re.split(r",(?=(?:[^']*'[^']*')*[^']*$)", s.split('/')[0])])
    while len(sections) < 6:
        sections.append([])
    busrec, loadrec, fsh, genrec, brrec, trrec = sections[:6]
    net = dict(mva=mva, buses=[], lines=[], shunts=[], pqs=[], pvs=[], slacks=[], idx_style='int')
    kv, vm, typ, ang = {}, {}, {}, {}
    for d in busrec:
        i = d[0]
        kv[i] = float(d[2]) if float(d[2]) != 0 else 1.0
        typ[i] = d[3]
        vm[i] = float(d[7])
        ang[i] = float(d[8]) * DEG
        net['buses'].append(dict(idx=i, Vn=kv[i], v0=vm[i], a0=ang[i], u=1, type=d[3]))
    for k, d in enumerate(loadrec):
        v0 = vm[d[0]]
        p = (d[5] + d[7] * v0 + d[9] * v0 ** 2) / mva
        q = (d[6] + d[8] * v0 - d[10] * v0 ** 2) / mva
        net['pqs'].append(dict(idx='ld%d' % k, bus=d[0], Vn=kv[d[0]], p0=p, q0=q, vmin=0.8, vmax=1.2, u=int(d[2])))
    for k, d in enumerate(fsh):
        net['shunts'].append(dict(idx='sh%d' % k, bus=d[0], Sn=mva, Vn=kv[d[0]], g=d[3] / mva, b=d[4] / mva, u=int(d[2])))
    for k, d in enumerate(genrec):
        g = dict(idx=k + 1, bus=d[0], sub=d[1], Sn=float(d[8]), Vn=kv[d[0]], p0=d[2] / mva, q0=d[3] / mva, v0=float(d[6]), u=int(d[14]))
        if typ[d[0]] == 3:
            g['a0'] = ang[d[0]]
            net['slacks'].append(g)
        else:
            net['pvs'].append(g)
    for k, d in enumerate(brrec):
        gi, bi, gj, bj = (float(d[9]), float(d[10]), float(d[11]), float(d[12])) if len(d) > 12 else (0.0, 0.0, 0.0, 0.0)
        net['lines'].append(dict(idx='br%d' % k, bus1=abs(d[0]), bus2=abs(d[1]), Sn=mva, Vn1=kv[abs(d[0])], Vn2=kv[abs(d[1])],
                                 r=float(d[3]), x=float(d[4]), b=float(d[5]), g=0.0, g1=gi, b1=bi, g2=gj, b2=bj, tap=1.0, phi=0.0,
                                 u=int(d[13]) if len(d) > 13 else 1))
    # transformers: 4 records (2-winding, K = 0) or 5 records (3-winding)
    k = 0
    n3 = 0
    while k < len(trrec):
        d0 = trrec[k]
        if d0[2] == 0:
            d1, d2, d3 = trrec[k + 1], trrec[k + 2], trrec[k + 3]
            k += 4
            i, j = d0[0], d0[1]
            cw, cz, cm = d0[4], d0[5], d0[6]
            nom1 = float(d2[1]) if float(d2[1]) != 0 else kv[i]
            nom2 = float(d3[1]) if len(d3) > 1 and float(d3[1]) != 0 else kv[j]
            w1, w2 = float(d2[0]), float(d3[0])
            if cw == 1:
                t1, t2 = w1, w2
            elif cw == 2:
                t1, t2 = w1 / kv[i], w2 / kv[j]
            else:
                t1, t2 = w1 * nom1 / kv[i], w2 * nom2 / kv[j]
            r, x = float(d1[0]), float(d1[1])
            if cz == 2:
                sb12 = float(d1[2])
                r, x = r * mva / sb12, x * mva / sb12
            # winding-1 voltage base -> bus base kV
            r, x = r * (nom1 / kv[i]) ** 2, x * (nom1 / kv[i]) ** 2
            # PSS/E places the impedance on the winding-1 side in series with an ideal t1:t2 transformer,
            # impedance in p.u. of winding-1 *tap* base: Z_bus = Z * t2^2 ... ; equivalent pi-model used here:
            # ratio t = t1/t2 on the from side, series impedance Z * t2**2 on the to side of the ideal transformer
            net['lines'].append(dict(idx='tr%d' % k, bus1=i, bus2=j, Sn=mva, Vn1=kv[i], Vn2=kv[j], r=r * t2 ** 2, x=x * t2 ** 2,
                                     b=0.0, g=0.0, g1=float(d0[7]) if cm == 1 else 0.0, b1=float(d0[8]) if cm == 1 else 0.0, g2=0.0, b2=0.0,
                                     tap=t1 / t2, phi=float(d2[2]) * DEG, u=int(d0[11]), mag_on_bus_side=True))
        else:
            n3 += 1
            k += 5
    net['n_three_winding'] = n3
    # switched shunts (section 17 of a v33 file): BINIT Mvar at nominal voltage, in service if STAT = 1
    if len(sections) > 16:
        for k2, d in enumerate(sections[16]):
            if len(d) > 9:
                net['shunts'].append(dict(idx='sw%d' % k2, bus=d[0], Sn=mva, Vn=kv[d[0]], g=0.0, b=float(d[9]) / mva, u=int(d[3])))
    return net


def write_raw(net, cw=1, cz=1, windv2=1.0, ixfr=True, nomv=None, load_split=None, vm=1.0):
    """Write a RAW v33 text of a net (system-base p.u. for series data). Transformers = branches with tap != 1 or phi != 0."""
    mva = net['mva']
    kv = {b['idx']: b['Vn'] for b in net['buses']}
    slack_bus = set(g['bus'] for g in net['slacks'] if g['u'])
    pv_bus = set(g['bus'] for g in net['pvs'] if g['u'])
    out = ['0, %.17g, 33, 0, 1, 60.00 / verif generated' % mva, 'generated case', '']
    ref_angle = {g['bus']: g.get('a0', 0.0) for g in net['slacks'] if g['u']}
    for b in net['buses']:
        ty = 3 if b['idx'] in slack_bus else (2 if b['idx'] in pv_bus else 1)
        out.append("%d,'B%-6d',%.17g,%d,1,1,1,%.17g,%.17g" % (b['idx'], b['idx'], b['Vn'], ty, vm, ref_angle.get(b['idx'], 0.0) / DEG))
    out.append('0 / END OF BUS DATA, BEGIN LOAD DATA')
    for k, d in enumerate(net['pqs']):
        if load_split:
            # the same load given as constant-power, constant-current and constant-admittance parts that total p0 + j q0 at
            # the bus voltage VM stated in the bus record: P = PL + IP*v + YP*v^2, Q = QL + IQ*v - YQ*v^2 (YQ < 0 = inductive)
            a, b_, c_ = load_split
            P, Q = d['p0'] * mva, d['q0'] * mva
            out.append("%d,'%d',%d,1,1,%.17g,%.17g,%.17g,%.17g,%.17g,%.17g,1"
                       % (d['bus'], k % 90 + 1, d['u'], a * P, a * Q, b_ * P / vm, b_ * Q / vm, c_ * P / vm ** 2, -c_ * Q / vm ** 2))
            continue
        out.append("%d,'%d',%d,1,1,%.17g,%.17g,0.0,0.0,0.0,0.0,1" % (d['bus'], k % 90 + 1, d['u'], d['p0'] * mva, d['q0'] * mva))
    out.append('0 / END OF LOAD DATA, BEGIN FIXED SHUNT DATA')
    for k, d in enumerate(net['shunts']):
        out.append("%d,'%d',%d,%.17g,%.17g" % (d['bus'], k % 90 + 1, d['u'], d['g'] * mva, d['b'] * mva))
    out.append('0 / END OF FIXED SHUNT DATA, BEGIN GENERATOR DATA')
    for g in net['slacks'] + net['pvs']:
        out.append("%d,'%s',%.17g,%.17g,999.0,-999.0,%.17g,0,%.17g,%.17g,%.17g,0.0,0.0,1.0,%d,100.0,9999.0,-9999.0,1,1.0"
                   % (g['bus'], g.get('sub', 1), g['p0'] * mva, g['q0'] * mva, g['v0'], g['Sn'], g.get('zr', 0.0), g.get('zx', 0.3), g['u']))
    out.append('0 / END OF GENERATOR DATA, BEGIN BRANCH DATA')
    lines = [ln for ln in net['lines'] if ln['tap'] == 1.0 and ln['phi'] == 0.0]
    xfr = [ln for ln in net['lines'] if not (ln['tap'] == 1.0 and ln['phi'] == 0.0)]
    for k, ln in enumerate(lines):
        out.append("%d,%d,'%d',%.17g,%.17g,%.17g,0.0,0.0,0.0,%.17g,%.17g,%.17g,%.17g,%d,0.0,1,1.0"
                   % (ln['bus1'], ln['bus2'], k % 90 + 1, ln['r'], ln['x'], ln['b'], ln['g1'], ln['b1'], ln['g2'], ln['b2'], ln['u']))
    out.append('0 / END OF BRANCH DATA, BEGIN TRANSFORMER DATA')
    for k, ln in enumerate(xfr):
        i, j = ln['bus1'], ln['bus2']
        t = ln['tap']
        t2 = windv2
        t1 = t * t2
        # impedance referred as described in read_raw: r_file * t2^2 = r_net
        r, x = ln['r'] / t2 ** 2, ln['x'] / t2 ** 2
        sb12 = mva
        if cw == 1:
            w1, w2, n1, n2 = t1, t2, 0.0, 0.0
        elif cw == 2:
            # winding voltages in kV: the ratio is WINDV / bus base kV whatever the name-plate voltages NOMV1/NOMV2 say
            # (nomv = (f1, f2): name-plate voltages as multiples of the bus base kV; they only set the impedance base)
            w1, w2, n1, n2 = t1 * kv[i], t2 * kv[j], 0.0, 0.0
            if nomv:
                n1, n2 = kv[i] * nomv[0], kv[j] * nomv[1]
        else:
            # winding-2 nominal voltage equals the bus base kV (ratio exactly nominal); winding 1 has its own nominal kV
            n1, n2 = kv[i] * 1.05, kv[j]
            w1, w2 = t1 * kv[i] / n1, t2 * kv[j] / n2
        # both impedance codes are on the winding-1 voltage base (NOMV1, or the bus base kV when NOMV1 is 0);
        # CZ=2 additionally uses SBASE1-2 instead of the system MVA base
        vb1 = n1 if n1 else kv[i]
        r, x = r * (kv[i] / vb1) ** 2, x * (kv[i] / vb1) ** 2
        if cz == 2:
            sb12 = 250.0
            r, x = r * (sb12 / mva), x * (sb12 / mva)
        out.append("%d,%d,0,'%d',%d,%d,1,%.17g,%.17g,2,'T%-6d',%d,1,1.0" % (i, j, k % 90 + 1, cw, cz, ln['g1'], ln['b1'], k, ln['u']))
        out.append("%.17g,%.17g,%.17g" % (r, x, sb12))
        out.append("%.17g,%.17g,%.17g,0.0,0.0,0.0,0,0,1.1,0.9,1.1,0.9,33,0,0.0,0.0" % (w1, n1, ln['phi'] / DEG))
        out.append("%.17g,%.17g" % (w2, n2))
    # three-winding transformers: net['xf3'] = [dict(buses=[I, J, K], z=[(r1, x1), (r2, x2), (r3, x3)] star-leg impedances in
    # system-base p.u., windv=[w1, w2, w3] off-nominal turns ratios (CW=1), ang=[deg...], u)]; the record carries the
    # measured pair impedances Z12 = Z1 + Z2, Z23 = Z2 + Z3, Z31 = Z3 + Z1 (CZ=1, system base)
    for k, t3 in enumerate(net.get('xf3', [])):
        (r1, x1), (r2, x2), (r3, x3) = t3['z']
        i, j, kk = t3['buses']
        out.append("%d,%d,%d,'%d',1,1,1,0.0,0.0,2,'W%-6d',%d,1,1.0" % (i, j, kk, k % 90 + 1, k, t3['u']))
        out.append("%.17g,%.17g,%.17g,%.17g,%.17g,%.17g,%.17g,%.17g,%.17g,1.0,0.0"
                   % (r1 + r2, x1 + x2, mva, r2 + r3, x2 + x3, mva, r3 + r1, x3 + x1, mva))
        for w, a in zip(t3['windv'], t3['ang']):
            out.append("%.17g,0.0,%.17g,0.0,0.0,0.0,0,0,1.1,0.9,1.1,0.9,33,0,0.0,0.0" % (w, a))
    out.append('0 / END OF TRANSFORMER DATA, BEGIN AREA DATA')
    for sec in ('AREA', 'TWO-TERMINAL DC', 'VSC DC', 'IMPEDANCE CORRECTION', 'MULTI-TERMINAL DC', 'MULTI-SECTION LINE', 'ZONE',
                'INTER-AREA TRANSFER', 'OWNER', 'FACTS', 'SWITCHED SHUNT', 'GNE'):
        out.append('0 / END OF %s DATA' % sec)
    out.append('Q')
    return '\n'.join(out) + '\n'


# ---------------------------------------------------------------------------------------------
# MATPOWER
# ---------------------------------------------------------------------------------------------

def write_m(net):
    """MATPOWER case text. Several loads/shunts on a bus are summed (the format has one Pd/Qd/Gs/Bs per bus)."""
    mva = net['mva']
    pd, qd, gs, bs = {}, {}, {}, {}
    for d in net['pqs']:
        if d['u']:
            pd[d['bus']] = pd.get(d['bus'], 0.0) + d['p0'] * mva
            qd[d['bus']] = qd.get(d['bus'], 0.0) + d['q0'] * mva
    for d in net['shunts']:
        if d['u']:
            gs[d['bus']] = gs.get(d['bus'], 0.0) + d['g'] * mva
            bs[d['bus']] = bs.get(d['bus'], 0.0) + d['b'] * mva
    slack_bus = set(g['bus'] for g in net['slacks'] if g['u'])
    pv_bus = set(g['bus'] for g in net['pvs'] if g['u'])
    out = ['function mpc = generated', "mpc.version = '2';", 'mpc.baseMVA = %.17g;' % mva, 'mpc.bus = [']
    ref_angle = {g['bus']: g.get('a0', 0.0) for g in net['slacks'] if g['u']}
    for b in net['buses']:
        i = b['idx']
        ty = 3 if i in slack_bus else (2 if i in pv_bus else 1)
        out.append('\t%d\t%d\t%.17g\t%.17g\t%.17g\t%.17g\t1\t1.0\t%.17g\t%.17g\t1\t1.1\t0.9;'
                   % (i, ty, pd.get(i, 0.0), qd.get(i, 0.0), gs.get(i, 0.0), bs.get(i, 0.0), ref_angle.get(i, 0.0) / DEG, b['Vn']))
    out.append('];')
    out.append('mpc.gen = [')
    for g in net['slacks'] + net['pvs']:
        out.append('\t%d\t%.17g\t%.17g\t999\t-999\t%.17g\t%.17g\t%d\t9999\t-9999\t0\t0\t0\t0\t0\t0\t0\t0\t0\t0\t0;'
                   % (g['bus'], g['p0'] * mva, g['q0'] * mva, g['v0'], mva, g['u']))
    out.append('];')
    out.append('mpc.branch = [')
    for ln in net['lines']:
        ratio = 0.0 if (ln['tap'] == 1.0 and ln['phi'] == 0.0) else ln['tap']
        out.append('\t%d\t%d\t%.17g\t%.17g\t%.17g\t0\t0\t0\t%.17g\t%.17g\t%d\t-360\t360;'
                   % (ln['bus1'], ln['bus2'], ln['r'], ln['x'], ln['b'], ratio, ln['phi'] / DEG, ln['u']))
    out.append('];')
    return '\n'.join(out) + '\n'


def read_m(text):
    """Independent reader of the numeric matrices of a MATPOWER case file."""
    out = dict(baseMVA=100.0)
    m = re.search(r'mpc\.baseMVA\s*=\s*([-+0-9.eE]+)', text)
    if m:
        out['baseMVA'] = float(m.group(1))
    for name in ('bus', 'gen', 'branch'):
        m = re.search(r'mpc\.%s\s*=\s*\[(.*?)\]' % name, text, flags=re.S)
        rows = []
        if m:
            body = re.sub(r'%[^\n]*', '', m.group(1))
            for chunk in re.split(r'[;\n]', body):
                chunk = chunk.strip()
                if chunk:
                    rows.append([float(x) for x in chunk.replace(',', ' ').split()])
        out[name] = rows
    return out
