"""O-fd: finite-difference derivatives with a kink detector (skip-and-count, never judge a kink)."""
import numpy as np


def fd_column(fun, x, j, h=None):
    """Derivative of vector function ``fun`` w.r.t. x[j].

    Returns (d, kink_mask): central difference with one Richardson step; ``kink_mask`` marks the
    rows where one-sided differences disagree (non-smooth point inside the stencil)."""
    x = np.array(x, dtype=float)
    hj = h if h is not None else 1e-6 * max(1.0, abs(x[j]))

    def at(d):
        y = x.copy()
        y[j] += d
        return np.asarray(fun(y), dtype=float)

    f0 = at(0.0)
    fp, fm = at(hj), at(-hj)
    fp2, fm2 = at(2 * hj), at(-2 * hj)
    d1 = (fp - fm) / (2 * hj)
    d2 = (fp2 - fm2) / (4 * hj)
    d = (4 * d1 - d2) / 3.0
    fwd = (fp - f0) / hj
    bwd = (f0 - fm) / hj
    scale = 1.0 + np.abs(d)
    kink = np.abs(fwd - bwd) > 1e-3 * scale
    kink |= ~np.isfinite(d)
    return d, kink
