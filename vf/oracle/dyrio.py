"""Independent reader / writer for PSS/E dynamic data (DYR) records. No ANDES import.

A record is   IBUS 'MODEL' ID  [integer constants ...]  CON(J) CON(J+1) ... /   and may span several lines.
LAYOUT gives, per PSS/E model, the integer constants that follow the machine id and the real constants in the order of
the PSS/E model data sheets (typed in from the data sheets, not from ANDES' psse-dyr.yaml).  SEMANTICS gives the meaning
of each constant in terms of the parameter names of the ANDES model of the same name (the physical quantity is the same;
H is the inertia constant, ANDES stores M = 2H; a round-rotor machine has X''q = X''d).
"""

# model -> (kind, integer constants after the id, real constants)
#   kind 'gen': attached to the machine (IBUS, ID) of the power-flow data
#   kind 'syn': controller of the synchronous machine at (IBUS, ID)
#   kind 'avr': acts through the excitation system of the machine at (IBUS, ID)
LAYOUT = {
    'GENCLS': ('gen', [], ['H', 'D']),
    'GENROU': ('gen', [], ['Td10', 'Td20', 'Tq10', 'Tq20', 'H', 'D', 'Xd', 'Xq', 'Xd1', 'Xq1', 'Xd2', 'Xl', 'S10', 'S12']),
    'TGOV1': ('syn', [], ['R', 'T1', 'VMAX', 'VMIN', 'T2', 'T3', 'Dt']),
    'IEEEG1': ('syn', ['JBUS', 'M'], ['K', 'T1', 'T2', 'T3', 'UO', 'UC', 'PMAX', 'PMIN', 'T4', 'K1', 'K2', 'T5', 'K3', 'K4',
                                      'T6', 'K5', 'K6', 'T7', 'K7', 'K8']),
    'IEESGO': ('syn', [], ['T1', 'T2', 'T3', 'T4', 'T5', 'T6', 'K1', 'K2', 'K3', 'PMAX', 'PMIN']),
    'HYGOV': ('syn', [], ['R', 'r', 'Tr', 'Tf', 'Tg', 'VELM', 'GMAX', 'GMIN', 'Tw', 'At', 'Dt', 'qNL']),
    'GAST': ('syn', [], ['R', 'T1', 'T2', 'T3', 'AT', 'KT', 'VMAX', 'VMIN', 'Dt']),
    'SEXS': ('syn', [], ['TATB', 'TB', 'K', 'TE', 'EMIN', 'EMAX']),
    'IEEEX1': ('syn', [], ['TR', 'KA', 'TA', 'TB', 'TC', 'VRMAX', 'VRMIN', 'KE', 'TE', 'KF1', 'TF1', '_switch', 'E1', 'SE1', 'E2', 'SE2']),
    'EXDC2': ('syn', [], ['TR', 'KA', 'TA', 'TB', 'TC', 'VRMAX', 'VRMIN', 'KE', 'TE', 'KF1', 'TF1', '_switch', 'E1', 'SE1', 'E2', 'SE2']),
    'ESDC2A': ('syn', [], ['TR', 'KA', 'TA', 'TB', 'TC', 'VRMAX', 'VRMIN', 'KE', 'TE', 'KF', 'TF1', 'Switch', 'E1', 'SE1', 'E2', 'SE2']),
    'IEEET1': ('syn', [], ['TR', 'KA', 'TA', 'VRMAX', 'VRMIN', 'KE', 'TE', 'KF', 'TF', 'Switch', 'E1', 'SE1', 'E2', 'SE2']),
    'EXST1': ('syn', [], ['TR', 'VIMAX', 'VIMIN', 'TC', 'TB', 'KA', 'TA', 'VRMAX', 'VRMIN', 'KC', 'KF', 'TF']),
    'ESST3A': ('syn', [], ['TR', 'VIMAX', 'VIMIN', 'KM', 'TC', 'TB', 'KA', 'TA', 'VRMAX', 'VRMIN', 'KG', 'KP', 'KI', 'VBMAX', 'KC',
                           'XL', 'VGMAX', 'THETAP', 'TM', 'VMMAX', 'VMMIN']),
    'EXAC1': ('syn', [], ['TR', 'TB', 'TC', 'KA', 'TA', 'VRMAX', 'VRMIN', 'TE', 'KF', 'TF', 'KC', 'KD', 'KE', 'E1', 'SE1', 'E2', 'SE2']),
    'IEEEST': ('avr', ['MODE', 'BUSR'], ['A1', 'A2', 'A3', 'A4', 'A5', 'A6', 'T1', 'T2', 'T3', 'T4', 'T5', 'T6', 'KS', 'LSMAX', 'LSMIN',
                                          'VCU', 'VCL']),
    'ST2CUT': ('avr', ['MODE', 'BUSR', 'MODE2', 'BUSR2'], ['K1', 'K2', 'T1', 'T2', 'T3', 'T4', 'T5', 'T6', 'T7', 'T8', 'T9', 'T10',
                                                              'LSMAX', 'LSMIN', 'VCU', 'VCL']),
    'IEEEVC': ('avr', [], ['rc', 'xc']),
}

# constants whose ANDES parameter is not simply the constant under the same name
#   andes parameter -> function of the record's constants
SEMANTICS = {
    'GENCLS': {'M': lambda c: 2.0 * c['H'], 'D': lambda c: c['D']},
    'GENROU': {'M': lambda c: 2.0 * c['H'], 'D': lambda c: c['D'], 'xd': lambda c: c['Xd'], 'xq': lambda c: c['Xq'],
               'xd1': lambda c: c['Xd1'], 'xq1': lambda c: c['Xq1'], 'xd2': lambda c: c['Xd2'], 'xq2': lambda c: c['Xd2'],
               'xl': lambda c: c['Xl'], 'Td10': lambda c: c['Td10'], 'Td20': lambda c: c['Td20'], 'Tq10': lambda c: c['Tq10'],
               'Tq20': lambda c: c['Tq20'], 'S10': lambda c: c['S10'], 'S12': lambda c: c['S12']},
}
# integer constants that are parameters of the ANDES model under the same name
INT_PARAMS = {'IEEEST': ['MODE'], 'ST2CUT': ['MODE', 'MODE2']}
# models of the file that ANDES maps onto another model class (not judged here, but they populate that class)
ALIASES = {'GENSAL': 'GENROU', 'SCRX': 'SEXS', 'EXPIC1': 'SEXS', 'ESAC6A': 'SEXS', 'GGOV1': 'TGOV1'}


def expected_params(model, cons):
    """ANDES parameter name -> value, for one record's constants (dict name -> value)."""
    if model in SEMANTICS:
        return {k: f(cons) for k, f in SEMANTICS[model].items()}
    out = {k: v for k, v in cons.items() if not k.startswith('_') and k not in LAYOUT[model][1]}
    for k in INT_PARAMS.get(model, []):
        out[k] = cons[k]
    return out


def _num(tok):
    try:
        return int(tok)
    except ValueError:
        try:
            return float(tok.replace('D', 'E').replace('d', 'e'))
        except ValueError:
            return tok


def read_dyr(text):
    """List of records dict(bus, model, id, ints, cons, raw) in file order. Records of unknown models carry cons=None."""
    out = []
    # strip comments: PSS/E comment lines start with '@!' or '//' ; everything after the terminating '/' of a record is ignored
    buf = ''
    for line in text.splitlines():
        s = line.strip()
        if not s or s.startswith('@!') or s.startswith('//'):
            continue
        if '/' in s:
            buf += ' ' + s.split('/', 1)[0]
            rec = buf.strip()
            buf = ''
            if not rec:
                continue
            q1 = rec.index("'")
            q2 = rec.index("'", q1 + 1)
            bus = _num(rec[:q1].replace(',', ' ').split()[0])
            model = rec[q1 + 1:q2].strip()
            rest = rec[q2 + 1:].replace(',', ' ').replace("'", ' ').split()
            mid = _num(rest[0]) if rest[0].lstrip('+-').isdigit() else rest[0]
            vals = [_num(t) for t in rest[1:]]
            r = dict(bus=bus, model=model, id=mid, ints=None, cons=None, values=vals)
            if model in LAYOUT:
                kind, ints, cons = LAYOUT[model]
                if len(vals) >= len(ints) + len(cons):
                    r['ints'] = dict(zip(ints, vals[:len(ints)]))
                    r['cons'] = dict(zip(cons, [float(v) for v in vals[len(ints):len(ints) + len(cons)]]))
                else:
                    r['short'] = True
            out.append(r)
        else:
            buf += ' ' + s
    return out


def fmt_value(v, style):
    if style == 'g17':
        s = '%.17g' % v
        return s if ('.' in s or 'e' in s or 'n' in s) else s + '.0'
    if style == 'fixed':
        return '%.4f' % v
    if style == 'exp':
        return '%.6E' % v
    raise ValueError(style)


def write_dyr(records, style='g17', per_line=0, width=1):
    """records: list of dict(bus, model, id, ints=[...], cons=[...]) -> text.  per_line > 0 breaks a record after that many
    constants (continuation lines); width = number of blanks between fields."""
    sep = ' ' * width
    lines = []
    for r in records:
        toks = [str(r['bus']), "'%s'" % r['model'], str(r['id'])] + [str(int(i)) for i in r.get('ints', [])] \
            + [fmt_value(float(v), style) for v in r['cons']]
        if per_line and len(toks) > per_line + 3:
            head, rest = toks[:3 + per_line], toks[3 + per_line:]
            lines.append(sep.join(head))
            while rest:
                chunk, rest = rest[:per_line], rest[per_line:]
                lines.append('      ' + sep.join(chunk) + ('  /' if not rest else ''))
        else:
            lines.append(sep.join(toks) + '  /')
    return '\n'.join(lines) + '\n'
