"""O-smib: classical machine behind x'd against an infinite bus through switched parallel lines.

Independent reference: the swing equation integrated by scipy.integrate.solve_ivp (rtol 1e-11) on every
switching interval; electrical power from a complex nodal solution of the 3-node network
(internal emf, terminal bus, infinite bus). No ANDES import.
"""
import cmath
import math

import numpy as np
from scipy.integrate import solve_ivp


def terminal_voltage(E, V2, yg, lines, yload):
    """Solve the terminal bus voltage for given internal emf E and infinite-bus voltage V2."""
    ys = 0j
    ysh = 0j
    for ln in lines:
        if ln['u']:
            y = 1.0 / complex(ln['r'], ln['x'])
            ys += y
            ysh += 1j * ln.get('b', 0.0) / 2
    V1 = (yg * E + ys * V2) / (yg + ys + ysh + yload)
    return V1


def electrical_power(delta, Emag, V2, yg, lines, yload):
    E = Emag * cmath.exp(1j * delta)
    V1 = terminal_voltage(E, V2, yg, lines, yload)
    Ig = yg * (E - V1)
    return (E * Ig.conjugate()).real, V1


def initial_condition(P, Q, V1, xd1, ra=0.0):
    """Internal emf magnitude and angle from the terminal power-flow quantities."""
    I = complex(P, -Q) / V1.conjugate()
    E = V1 + complex(ra, xd1) * I
    return abs(E), cmath.phase(E)


def simulate(case, t_eval):
    """case: dict(M, D, xd1, ra, fn, lines=[{r,x,b,u}], events=[(t, line_index)], V2 (complex), P, Q, V1 (complex), yload)
    Returns delta(t_eval), omega(t_eval)."""
    yg = 1.0 / complex(case.get('ra', 0.0), case['xd1'])
    Emag, d0 = initial_condition(case['P'], case['Q'], case['V1'], case['xd1'], case.get('ra', 0.0))
    lines = [dict(l) for l in case['lines']]
    Pm, _ = electrical_power(d0, Emag, case['V2'], yg, lines, case['yload'])
    w0 = 2 * math.pi * case['fn']
    M, D = case['M'], case['D']

    def rhs(t, y):
        pe, _ = electrical_power(y[0], Emag, case['V2'], yg, lines, case['yload'])
        return [w0 * (y[1] - 1.0), (Pm - pe - D * (y[1] - 1.0)) / M]

    t_eval = np.asarray(t_eval, dtype=float)
    out_d = np.zeros_like(t_eval)
    out_w = np.zeros_like(t_eval)
    y = np.array([d0, 1.0])
    t = 0.0
    events = sorted(case['events'])
    bounds = [e[0] for e in events] + [float(t_eval[-1]) + 1e-9]
    k = 0
    done = np.zeros(len(t_eval), dtype=bool)
    for b_i, tb in enumerate(bounds):
        if tb > t:
            mask = (~done) & (t_eval >= t) & (t_eval <= tb)
            te = t_eval[mask]
            sol = solve_ivp(rhs, (t, tb), y, t_eval=te if len(te) else None, rtol=1e-11, atol=1e-13, method='DOP853')
            if len(te):
                out_d[mask] = sol.y[0]
                out_w[mask] = sol.y[1]
                done |= mask
            # final state of the interval
            sol2 = sol if (len(te) and te[-1] == tb) else solve_ivp(rhs, (t, tb), y, rtol=1e-11, atol=1e-13, method='DOP853')
            y = np.array([sol2.y[0][-1], sol2.y[1][-1]])
            t = tb
        if b_i < len(events):
            li = events[b_i][1]
            lines[li]['u'] = 1 - lines[li]['u']
    return out_d, out_w, dict(Emag=Emag, delta0=d0, Pm=Pm)
