"""O-pu: textbook per-unit base ratios (no ANDES import)."""

KINDS = ('power', 'ipower', 'voltage', 'current', 'z', 'y', 'dc_voltage', 'dc_current', 'r', 'g')


def coefficient(kind, Sn, Vn, Sb, Vb, Vdcn=1.0, Vdcb=1.0, Idcn=None, Idcb=None):
    """system_value = input_value * k(kind)."""
    if kind == 'power':
        return Sn / Sb
    if kind == 'ipower':
        return Sb / Sn
    if kind == 'voltage':
        return Vn / Vb
    if kind == 'current':
        return (Sn / Vn) / (Sb / Vb)
    if kind == 'z':
        return (Vn ** 2 / Sn) / (Vb ** 2 / Sb)
    if kind == 'y':
        return (Vb ** 2 / Sb) / (Vn ** 2 / Sn)
    if Idcb is None:
        Idcb = Sb / Vdcb
    if Idcn is None:
        Idcn = Sb / Vdcb
    if kind == 'dc_voltage':
        return Vdcn / Vdcb
    if kind == 'dc_current':
        return Idcn / Idcb
    if kind == 'r':
        return (Vdcn / Idcn) / (Vdcb / Idcb)
    if kind == 'g':
        return (Vdcb / Idcb) / (Vdcn / Idcn)
    raise KeyError(kind)
