"""known_findings.json: signature matching (never written at run time)."""
import json
import os

PATH = os.path.join(os.path.dirname(os.path.dirname(os.path.abspath(__file__))), 'known_findings.json')


def load_findings(prop=None):
    if not os.path.isfile(PATH):
        return []
    data = json.load(open(PATH))
    out = [f for f in data.get('findings', []) if prop is None or f.get('property') == prop]
    return out


def match_finding(findings, sig):
    """A violation matches a *known* finding iff every key of the finding's signature
    is present in the violation signature with an equal value. ``fixed`` entries never match."""
    for f in findings:
        if f.get('status') != 'known':
            continue
        fs = f.get('signature') or {}
        if fs and all(k in sig and sig[k] == v for k, v in fs.items()):
            return f
    return None
