"""C19 - cross-references between devices are resolved completely or rejected."""
from hypothesis import strategies as st
from hypothesis.stateful import RuleBasedStateMachine, rule, precondition, invariant, initialize

from .. import build
from ..runner import drive_machine, Violation

RULE = ("Hypothesis rule-based state machine on a bare System: rules add devices to the models of multi-model "
        "groups (ACTopology, StaticGen, StaticLoad, StaticShunt, SynGen, Exciter, TurbineGov, PSS, FreqMeasurement) with "
        "explicit / missing / colliding / auto-pattern-looking / int / str idx and references to existing or "
        "never-added targets, and query find_idx on models and groups; a final rule runs setup() and checks "
        "back-reference lists, find-or-add helper devices and the reporting of dangling mandatory references. "
        "Oracle: the machine's own tables (list comprehensions over the added rows). Non-trivial = a history with "
        ">= 1 idx collision or auto-pattern idx, >= 2 models of one group populated, and a setup(); distinct by the "
        "history of rule calls.")
ASSUMPTIONS = [
    "Only parameters needed for set-up are supplied; numeric data take their defaults (set-up does not initialise values).",
    "A reference is 'required' when the IdxParam is declared mandatory and names a model/group (bus of PV/PQ/Shunt, gen of SynGen, syn of Exciter/TurbineGov, avr of PSS).",
]

GROUPS = {
    'Bus': 'ACTopology', 'PV': 'StaticGen', 'Slack': 'StaticGen', 'PQ': 'StaticLoad', 'Shunt': 'StaticShunt',
    'ShuntSw': 'StaticShunt', 'GENCLS': 'SynGen', 'GENROU': 'SynGen', 'EXDC2': 'Exciter', 'SEXS': 'Exciter',
    'TGOV1': 'TurbineGov', 'IEEEG1': 'TurbineGov', 'IEEEST': 'PSS', 'ST2CUT': 'PSS', 'BusFreq': 'FreqMeasurement',
    'BusROCOF': 'FreqMeasurement',
}
# reference field -> target group
REFS = {'PV': {'bus': 'ACTopology'}, 'Slack': {'bus': 'ACTopology'}, 'PQ': {'bus': 'ACTopology'},
        'Shunt': {'bus': 'ACTopology'}, 'ShuntSw': {'bus': 'ACTopology'},
        'GENCLS': {'bus': 'ACTopology', 'gen': 'StaticGen'}, 'GENROU': {'bus': 'ACTopology', 'gen': 'StaticGen'},
        'EXDC2': {'syn': 'SynGen'}, 'SEXS': {'syn': 'SynGen'}, 'TGOV1': {'syn': 'SynGen'}, 'IEEEG1': {'syn': 'SynGen'},
        'IEEEST': {'avr': 'Exciter'}, 'ST2CUT': {'avr': 'Exciter'}, 'BusFreq': {'bus': 'ACTopology'},
        'BusROCOF': {'bus': 'ACTopology'}, 'Bus': {}}

idx_kinds = st.sampled_from(['auto', 'auto', 'int', 'str', 'collide', 'pattern', 'pattern_next', 'zero', 'zero'])


class Machine(RuleBasedStateMachine):
    ctx = None
    last_history = None

    def __init__(self):
        super().__init__()
        self.ss = build.new_system()
        self.rows = {m: [] for m in GROUPS}          # model -> list of dict(idx=..., refs...)
        self.hist = []
        self.features = set()
        self.dangling = []                           # (model, field, value)
        self.done = False
        self.counter = 1000
        type(self).last_history = self.hist

    # ---- helpers ---------------------------------------------------------------------------------
    def group_idx(self, group):
        return [r['idx'] for m, g in GROUPS.items() if g == group for r in self.rows[m]]

    def fail(self, clause, detail, sig=None):
        type(self).last_history = list(self.hist)
        self.ctx.fail(clause, dict(detail, history=list(self.hist)), sig=sig)

    def choose_idx(self, data, model, kind):
        group = GROUPS[model]
        existing = self.group_idx(group)
        self.counter += 1
        if kind == 'auto':
            return None
        if kind == 'int':
            return self.counter
        if kind == 'str':
            return 'dev%d' % self.counter
        if kind == 'zero':          # zero-based numbering (stock cases such as pjm5bus use it): 0 is a valid idx
            if 0 not in existing:
                self.features.add('idx_zero')
                return 0
            return self.counter
        if kind == 'collide':
            if existing:
                self.features.add('collision')
                return data.draw(st.sampled_from(existing), label='collide_with')
            return None
        if kind == 'pattern':       # looks like an automatically generated idx of the near future
            self.features.add('auto_pattern')
            # build consecutive runs of auto-looking idx just ahead of the counter, so that a later automatic
            # idx has to skip several taken names
            k = len(existing) + 1
            while '%s_%d' % (model, k) in existing:
                k += 1
            return '%s_%d' % (model, k + data.draw(st.sampled_from([0, 0, 0, 1]), label='ahead'))
        if kind == 'pattern_next':
            self.features.add('auto_pattern')
            other = [m for m, g in GROUPS.items() if g == group]
            return '%s_%d' % (data.draw(st.sampled_from(other), label='pattern_model'), len(existing) + 1)
        return None

    def do_add(self, model, idx_req, params):
        group = GROUPS[model]
        before = self.group_idx(group)
        p = dict(params)
        if idx_req is not None:
            p['idx'] = idx_req
        self.hist.append(['add', model, repr(idx_req), {k: repr(v) for k, v in params.items()}])
        # a parameter declared unique must reject a repeated value (documented IndexError)
        mdl0 = self.ss.models[model]
        dup_unique = [f for f in params if f in mdl0.params and mdl0.params[f].get_property('unique')
                      and any(r.get(f) == params[f] for r in self.rows[model])]
        try:
            got = self.ss.add(model, p)
        except IndexError as e:
            if dup_unique:
                self.ctx.count('add:duplicate_unique_rejected')
                self.features.add('unique_rejected')
                self.done = True          # the rejected device is partially registered; stop this history here
                self.hist.append(['stop-after-rejected-add'])
                return None
            self.fail('add_raised', dict(model=model, idx=repr(idx_req), error='%s: %s' % (type(e).__name__, e)),
                      sig=dict(error=type(e).__name__))
            return None
        except Exception as e:
            self.fail('add_raised', dict(model=model, idx=repr(idx_req), error='%s: %s' % (type(e).__name__, e)),
                      sig=dict(error=type(e).__name__))
            return None
        if dup_unique:
            self.fail('duplicate_unique_value_accepted', dict(model=model, fields=dup_unique), sig=dict(model=model))
        if got in before:
            self.fail('duplicate_idx_in_group', dict(model=model, requested=repr(idx_req), assigned=repr(got)),
                      sig=dict(kind='duplicate'))
        if idx_req is not None and idx_req not in before and got != idx_req:
            self.fail('explicit_idx_not_honoured', dict(model=model, requested=repr(idx_req), assigned=repr(got)), sig=dict())
        row = dict(params)
        row['idx'] = got
        self.rows[model].append(row)
        g = self.ss.groups[group]
        mdl = self.ss.models[model]
        if g.n != len(before) + 1 or mdl.n != len(self.rows[model]) or mdl.idx.v[-1] != got:
            self.fail('registry_inconsistent', dict(model=model, group_n=g.n, model_n=mdl.n), sig=dict())
        if g.idx2model(got) is not mdl:
            self.fail('idx2model_wrong', dict(model=model, idx=repr(got)), sig=dict())
        return got

    def ref(self, data, group, label, allow_dangling=True):
        existing = self.group_idx(group)
        if existing and (not allow_dangling or data.draw(st.integers(0, 24), label=label + '_dangle') > 0):
            return data.draw(st.sampled_from(existing), label=label), False
        self.counter += 1
        return 'nowhere%d' % self.counter, True

    # ---- rules -------------------------------------------------------------------------------------
    @initialize(data=st.data())
    def seed_network(self, data):
        for _ in range(2):
            self.do_add('Bus', self.choose_idx(data, 'Bus', data.draw(idx_kinds, label='k')), dict(Vn=110.0))
        buses = self.group_idx('ACTopology')
        self.do_add('Slack', self.choose_idx(data, 'Slack', data.draw(idx_kinds, label='k')), dict(bus=buses[0]))
        self.do_add('PV', self.choose_idx(data, 'PV', data.draw(idx_kinds, label='k')), dict(bus=buses[1]))

    @precondition(lambda self: not self.done)
    @rule(data=st.data(), kind=idx_kinds)
    def add_bus(self, data, kind):
        self.do_add('Bus', self.choose_idx(data, 'Bus', kind), dict(Vn=110.0))

    @precondition(lambda self: not self.done and len(self.rows['Bus']) > 0)
    @rule(data=st.data(), model=st.sampled_from(['PV', 'Slack', 'PQ', 'Shunt', 'ShuntSw', 'BusFreq', 'BusROCOF']), kind=idx_kinds)
    def add_on_bus(self, data, model, kind):
        bus, dang = self.ref(data, 'ACTopology', 'bus')
        params = dict(bus=bus)
        if model == 'ShuntSw':
            params.update(gs='[0]', bs='[0.1]', ns='[1]')
        idx = self.do_add(model, self.choose_idx(data, model, kind), params)
        if dang and idx is not None:
            self.dangling.append((model, 'bus', bus))
            self.features.add('dangling')

    @precondition(lambda self: not self.done and len(self.rows['Bus']) > 0)
    @rule(data=st.data(), model=st.sampled_from(['PQ', 'Shunt', 'PV', 'BusFreq']), width=st.integers(2, 4))
    def add_pattern_block(self, data, model, width):
        """A run of explicit idx that look like the next automatic ones, followed by an automatic add: the
        generator has to skip the whole run."""
        n = len(self.group_idx(GROUPS[model]))
        self.features.add('auto_pattern')
        for j in range(width):
            bus, _ = self.ref(data, 'ACTopology', 'bus', allow_dangling=False)
            self.do_add(model, '%s_%d' % (model, n + width + 1 + j), dict(bus=bus))
        bus, _ = self.ref(data, 'ACTopology', 'bus', allow_dangling=False)
        self.do_add(model, None, dict(bus=bus))

    @precondition(lambda self: not self.done and len(self.group_idx('StaticGen')) > 0)
    @rule(data=st.data(), model=st.sampled_from(['GENCLS', 'GENROU']), kind=idx_kinds)
    def add_syn(self, data, model, kind):
        gen, dang = self.ref(data, 'StaticGen', 'gen')
        bus = None
        for m in ('PV', 'Slack'):
            for r in self.rows[m]:
                if r['idx'] == gen:
                    bus = r['bus']
        if bus is None:
            bus = self.group_idx('ACTopology')[0]
        idx = self.do_add(model, self.choose_idx(data, model, kind), dict(bus=bus, gen=gen))
        if dang and idx is not None:
            self.dangling.append((model, 'gen', gen))
            self.features.add('dangling')

    @precondition(lambda self: not self.done and len(self.group_idx('SynGen')) > 0)
    @rule(data=st.data(), model=st.sampled_from(['EXDC2', 'SEXS', 'TGOV1', 'IEEEG1']), kind=idx_kinds)
    def add_ctrl(self, data, model, kind):
        syn, dang = self.ref(data, 'SynGen', 'syn')
        params = dict(syn=syn)
        dang2 = False
        if model == 'IEEEG1':
            # the optional second machine of a cross-compound unit: left empty, an existing machine, or a machine that
            # does not exist (an optional reference that is given must resolve too)
            k2 = data.draw(st.sampled_from(['none', 'none', 'valid', 'dangling']), label='syn2_kind')
            if k2 == 'valid':
                others = [g for g in self.group_idx('SynGen') if g != syn]      # a second machine is another machine
                if others:
                    params['syn2'] = data.draw(st.sampled_from(others), label='syn2')
            elif k2 == 'dangling':
                self.counter += 1
                params['syn2'] = 'nowhere%d' % self.counter
                dang2 = True
        idx = self.do_add(model, self.choose_idx(data, model, kind), params)
        if dang and idx is not None:
            self.dangling.append((model, 'syn', syn))
            self.features.add('dangling')
        if dang2 and idx is not None:
            self.dangling.append((model, 'syn2', params['syn2']))
            self.features.add('dangling')
            self.ctx.count('dangling_optional_reference')

    @precondition(lambda self: not self.done and len(self.group_idx('Exciter')) > 0)
    @rule(data=st.data(), model=st.sampled_from(['IEEEST', 'ST2CUT']), kind=idx_kinds,
          explicit_bf=st.booleans())
    def add_pss(self, data, model, kind, explicit_bf):
        avr, dang = self.ref(data, 'Exciter', 'avr', allow_dangling=False)
        params = dict(avr=avr)
        if model == 'IEEEST':
            params['MODE'] = 1
        else:
            params['MODE'] = 1
            params['MODE2'] = 0
        bfs = [r['idx'] for r in self.rows['BusFreq']]
        if explicit_bf and bfs:
            params['busf'] = data.draw(st.sampled_from(bfs), label='busf')
        self.do_add(model, self.choose_idx(data, model, kind), params)

    @precondition(lambda self: not self.done)
    @rule(data=st.data(), target_model=st.sampled_from(sorted(GROUPS)), allow_all=st.booleans(), on_group=st.booleans(),
          missing=st.booleans())
    def query(self, data, target_model, allow_all, on_group, missing):
        """find_idx by a reference field; oracle = list comprehension over the machine's rows."""
        fields = sorted(REFS[target_model])
        if not fields or not self.rows[target_model]:
            return
        field = data.draw(st.sampled_from(fields), label='field')
        group = GROUPS[target_model]
        models = [m for m, g in GROUPS.items() if g == group] if on_group else [target_model]
        if on_group and any(field not in REFS[m] for m in models if self.rows[m]):
            return
        pool = [r[field] for m in models for r in self.rows[m]]
        value = data.draw(st.sampled_from(pool), label='value')
        if missing:
            value = 'absent-value'
        self._query(group, target_model, field, value, allow_all, on_group, missing)

    def _query(self, group, target_model, field, value, allow_all, on_group, missing):
        models = [m for m, g in GROUPS.items() if g == group] if on_group else [target_model]
        # the group iterates its models in registration order
        order = [m for m in self.ss.groups[group].models.keys() if m in models] if on_group else models
        matches = [r['idx'] for m in order for r in self.rows[m] if r[field] == value]
        obj = self.ss.groups[group] if on_group else self.ss.models[target_model]
        self.hist.append(['find_idx', group if on_group else target_model, field, repr(value), allow_all, missing])
        self.ctx.count('query:' + ('group' if on_group else 'model') + (':allow_all' if allow_all else '')
                       + (':several_models' if on_group and len(set(m for m in order for r in self.rows[m]
                                                                    if r[field] == value)) > 1 else ''))
        try:
            got = obj.find_idx(keys=field, values=[value], allow_none=True, default=None, allow_all=allow_all)
        except Exception as e:
            self.fail('find_idx_raised', dict(error='%s: %s' % (type(e).__name__, e)), sig=dict(error=type(e).__name__))
            return
        if allow_all:
            want = [matches] if matches else [[None]]
            ok = len(got) == 1 and sorted(map(repr, got[0])) == sorted(map(repr, want[0]))
        else:
            want = [matches[0]] if matches else [None]
            ok = got == want or (matches and len(got) == 1 and got[0] in matches and not on_group and got[0] == matches[0]) \
                or (matches and on_group and len(got) == 1 and got[0] in matches)
        if len(matches) > 1:
            self.features.add('multi_match')
        if on_group and len(set(m for m in order for r in self.rows[m] if r[field] == value)) > 1:
            self.features.add('match_in_two_models')
        if not ok:
            self.fail('find_idx_wrong', dict(on=('group ' + group) if on_group else target_model, field=field, value=repr(value),
                                             allow_all=allow_all, returned=repr(got), expected=repr(want)),
                      sig=dict(on_group=on_group, allow_all=allow_all,
                               several_models=bool(on_group and len(set(m for m in order for r in self.rows[m]
                                                                            if r[field] == value)) > 1)))
        if not missing:
            # non-allow_none lookup of an absent value must raise
            try:
                obj.find_idx(keys=field, values=['absent-value'], allow_none=False)
            except IndexError:
                pass
            except Exception:
                pass
            else:
                self.fail('find_idx_absent_value_not_reported', dict(on=group if on_group else target_model), sig=dict())

    @precondition(lambda self: not self.done)
    @rule(data=st.data(), group=st.sampled_from(['StaticShunt', 'StaticGen', 'FreqMeasurement', 'SynGen', 'Exciter', 'TurbineGov']),
          allow_all=st.booleans())
    def query_group_by_ref(self, data, group, allow_all):
        """Group lookup by the common reference field, biased to values held by devices of several models."""
        models = [m for m, g in GROUPS.items() if g == group and self.rows[m]]
        if not models:
            return
        field = sorted(REFS[models[0]])[0] if group not in ('SynGen',) else 'bus'
        per_value = {}
        for m in models:
            for r in self.rows[m]:
                per_value.setdefault(repr(r[field]), (r[field], set()))[1].add(m)
        multi = [v for v, ms in per_value.values() if len(ms) > 1]
        pool = multi if multi else [v for v, _ in per_value.values()]
        value = data.draw(st.sampled_from(sorted(pool, key=repr)), label='value')
        self._query(group, None, field, value, allow_all, True, False)

    @precondition(lambda self: self.done)
    @rule()
    def after_setup(self):
        pass

    @precondition(lambda self: not self.done and len(self.hist) >= 12)
    @rule()
    def finish(self):
        self.do_finish()

    def do_finish(self):
        """setup() and the post-set-up checks."""
        self.done = True
        self.hist.append(['setup'])
        ss = self.ss
        try:
            ok = ss.setup()
            raised = None
        except Exception as e:
            ok = False
            raised = '%s: %s' % (type(e).__name__, str(e)[:200])
        populated = {}
        for m, g in GROUPS.items():
            if self.rows[m]:
                populated.setdefault(g, set()).add(m)
        if any(len(v) >= 2 for v in populated.values()):
            self.features.add('two_models_one_group')
        if self.dangling:
            if ok:
                self.fail('dangling_reference_not_reported', dict(dangling=[list(map(repr, d)) for d in self.dangling]),
                          sig=dict(model=self.dangling[0][0], field=self.dangling[0][1]))
            self.ctx.count('setup:dangling_reported')
        else:
            if not ok:
                self.fail('consistent_data_rejected', dict(raised=raised), sig=dict(raised=bool(raised)))
            self.check_backrefs()
            self.check_finders()
        if {'two_models_one_group'} <= self.features and (self.features & {'collision', 'auto_pattern'}):
            self.ctx.nontrivial(dict(h=self.hist), sample=dict(history=self.hist[:25], features=sorted(self.features)))
        for f in self.features:
            self.ctx.count('feature:' + f)
        self.ctx.count('histories:with_setup')

    # ---- post-set-up oracles ---------------------------------------------------------------------------
    def check_backrefs(self):
        ss = self.ss
        # (holder object, BackRef name, holder rows (in holder order), referrer models, field)
        specs = [
            (ss.PV, 'SynGen', 'PV', ['GENCLS', 'GENROU'], 'gen'),
            (ss.Slack, 'SynGen', 'Slack', ['GENCLS', 'GENROU'], 'gen'),
            (ss.StaticGen, 'SynGen', None, ['GENCLS', 'GENROU'], 'gen'),
            (ss.SynGen, 'Exciter', None, ['EXDC2', 'SEXS'], 'syn'),
            (ss.SynGen, 'TurbineGov', None, ['TGOV1', 'IEEEG1'], 'syn'),
            (ss.Exciter, 'PSS', None, ['IEEEST', 'ST2CUT'], 'avr'),
        ]
        for holder, name, hmodel, refmodels, field in specs:
            br = getattr(holder, name)
            if hmodel is not None:
                hidx = [r['idx'] for r in self.rows[hmodel]]
            else:
                hidx = list(holder._idx2model.keys())
            if len(hidx) == 0:
                continue
            if len(br.v) != len(hidx):
                self.fail('backref_length', dict(holder=holder.class_name, name=name, n=len(br.v), devices=len(hidx)), sig=dict())
            for k, hi in enumerate(hidx):
                pos = holder.idx2uid(hi)
                want = sorted(repr(r['idx']) for m in refmodels for r in self.rows[m] if r[field] == hi)
                if field == 'syn':
                    # the optional second machine of a cross-compound governor points to its machine as well
                    want = sorted(want + [repr(r['idx']) for m in refmodels for r in self.rows[m] if r.get('syn2') == hi])
                got = sorted(repr(x) for x in br.v[pos])
                if want != got:
                    self.fail('backref_wrong', dict(holder=holder.class_name, name=name, device=repr(hi), got=got, expected=want),
                              sig=dict(holder=holder.class_name, name=name))
                if want:
                    self.features.add('backref_nonempty')

    def check_finders(self):
        ss = self.ss
        bus_of_exc = {}
        for m in ('EXDC2', 'SEXS'):
            for r in self.rows[m]:
                syn = r['syn']
                for sm in ('GENCLS', 'GENROU'):
                    for sr in self.rows[sm]:
                        if sr['idx'] == syn:
                            bus_of_exc[r['idx']] = sr['bus']
        explicit_bf = {r['idx']: r['bus'] for r in self.rows['BusFreq']}
        all_bf = {i: b for i, b in zip(ss.BusFreq.idx.v, ss.BusFreq.bus.v)}
        created = {i: b for i, b in all_bf.items() if i not in explicit_bf}
        # no helper created twice for one bus, and none where an explicit device already measured that bus
        if len(set(created.values())) != len(created):
            self.fail('helper_created_twice', dict(created={repr(k): repr(v) for k, v in created.items()}), sig=dict())
        for i, b in created.items():
            if b in explicit_bf.values():
                self.fail('existing_helper_not_reused', dict(bus=repr(b), created=repr(i)), sig=dict())
        for m in ('IEEEST', 'ST2CUT'):
            mdl = ss.models[m]
            for k, r in enumerate(self.rows[m]):
                bus = bus_of_exc.get(r['avr'])
                got = mdl.busfreq.v[k]
                if 'busf' in r:
                    if got != r['busf']:
                        self.fail('explicit_helper_replaced', dict(model=m, device=repr(r['idx']), given=repr(r['busf']), linked=repr(got)), sig=dict())
                    continue
                if got not in all_bf:
                    self.fail('helper_link_dangling', dict(model=m, device=repr(r['idx']), linked=repr(got)), sig=dict())
                elif bus is not None and all_bf[got] != bus:
                    self.fail('helper_measures_wrong_bus', dict(model=m, device=repr(r['idx']), helper=repr(got),
                                                                helper_bus=repr(all_bf[got]), device_bus=repr(bus)), sig=dict())
                self.features.add('finder_used')


def camp_machine(ctx):
    Machine.ctx = ctx

    class M(Machine):
        pass
    M.ctx = ctx
    n = 25 if ctx.tier == 'quick' else 400
    done = drive_machine(ctx, M, n, steps=40 if ctx.tier == 'quick' else 60, name='xref',
                         budget_s=150 if ctx.tier == 'quick' else 1500, shrink=ctx.tier != 'quick')
    ctx.evaluated(done)
    if ctx.violations and ctx.violations[-1].get('case') is None:
        ctx.violations[-1]['case'] = dict(history=M.last_history)


CAMPAIGNS = {
    'machine': dict(fn=camp_machine, shards=dict(quick=16, thorough=16)),
}


def replay(ctx, rec):
    """Replays re-execute the recorded rule calls against a fresh System."""
    hist = rec['case'].get('history') if isinstance(rec.get('case'), dict) else rec.get('case')
    Machine.ctx = ctx
    m = Machine.__new__(Machine)
    m.ss = build.new_system()
    m.rows = {k: [] for k in GROUPS}
    m.hist, m.features, m.dangling, m.done, m.counter = [], set(), [], False, 1000
    import ast
    for step in hist:
        if step[0] == 'add':
            _, model, idx_repr, params = step
            idx = ast.literal_eval(idx_repr)
            p = {k: ast.literal_eval(v) for k, v in params.items()}
            for f, g in REFS[model].items():
                if f in p and p[f] not in m.group_idx(g) and (model, f, p[f]) not in m.dangling:
                    m.dangling.append((model, f, p[f]))
            m.do_add(model, idx, p)
        elif step[0] == 'find_idx':
            _, on, field, value_repr, allow_all, missing = step
            value = ast.literal_eval(value_repr)
            obj = m.ss.groups[on] if on in m.ss.groups else m.ss.models[on]
            models = [mm for mm, g in GROUPS.items() if g == on] if on in m.ss.groups else [on]
            order = [mm for mm in m.ss.groups[on].models.keys() if mm in models] if on in m.ss.groups else models
            matches = [r['idx'] for mm in order for r in m.rows[mm] if r.get(field) == value]
            got = obj.find_idx(keys=field, values=[value], allow_none=True, default=None, allow_all=allow_all)
            if allow_all:
                want = matches if matches else [None]
                if sorted(map(repr, got[0])) != sorted(map(repr, want)):
                    ctx.fail('find_idx_wrong', dict(on=on, field=field, value=value_repr, returned=repr(got), expected=repr([want])),
                             sig=dict(on_group=on in m.ss.groups, allow_all=True))
        elif step[0] == 'setup':
            m.do_finish()
