"""C02 - generated numerical code computes exactly the declared model equations."""
import numpy as np
from hypothesis import strategies as st

from .. import fab
from ..oracle import pyeval
from ..runner import drive

EXHAUSTIVE = True
RULE = ("Outer dimension enumerated exhaustively: every shipped model and every declared string in it "
        "(e_str of State/Algeb/ExtState/ExtAlgeb, v_str, v_iter, service v_str). Inner dimension sampled: "
        "argument points (N devices at once) drawn in three modes (generic, positive, small palette that makes "
        "relational break-points and ties frequent), flags one-hot per limiter, dae_t in {-1,0,0.5,3}, (0,1) config "
        "flags flipped. The generated functions are executed through the model's own call path "
        "(name lookup -> pycode function -> positional binding) and compared slot by slot with a direct Python "
        "evaluation of the declared string. The order of the generated initialisation sequence is judged for every model: each variable once, and after every variable its declared initialiser's value depends on (dependencies found by perturbing one variable at a time in the independent evaluator, plus the model's manually declared ones). Non-trivial = a (model, string-kind, point) evaluation in which "
        "the string has a finite value in the oracle and depends on >= 1 generated input; distinct by "
        "(model, string name, kind).")
ASSUMPTIONS = [
    "Hand-written numeric hooks (f_numeric/g_numeric/v_numeric/s_numeric) have no declared string and are outside the oracle.",
    "Points at which the declared string itself is non-finite (division by zero, log/sqrt outside the domain) are counted, not judged.",
    "Argument magnitudes are 0 or within [1e-6, 1e3]: at underflow/overflow scale algebraically equal forms differ by rounding only.",
    "Relative tolerance 1e-9 scaled by a cancellation estimate; symbolic rewriting may reassociate floating-point sums.",
]

N = 4
PALETTE = [-1.0, 0.0, 0.5, 1.0, 2.0]


def model_names():
    ss = fab.bare_system()
    return list(ss.models.keys())


@st.composite
def points(draw, model_name):
    """A JSON-able argument point for one model."""
    ss = fab.bare_system()
    model = ss.models[model_name]
    rnd = draw(st.randoms(use_true_random=False))
    mode = draw(st.sampled_from(['generic', 'positive', 'palette', 'palette']))
    vals = {}

    def num():
        if mode == 'generic':
            x = rnd.uniform(-2.0, 2.0)
            # magnitudes at underflow scale are outside the domain: algebraically equal forms
            # (a/v/v vs a/v**2) differ there only by floating-point underflow
            return 0.0 if abs(x) < 1e-6 else x
        if mode == 'positive':
            return rnd.uniform(0.05, 3.0)
        return rnd.choice(PALETTE)

    spec = fab.input_spec(model)
    flags_done = set()
    for cls, group in fab.flag_groups(model):
        names = [nm for nm, _ in group]
        fl = [f for _, f in group]
        arr = {nm: [0.0] * N for nm in names}
        if set(fl) >= {'zi', 'zl', 'zu'} or set(fl) == {'zi', 'zl'} or set(fl) == {'zi', 'zu'} \
                or (fl and all(f.startswith('s') and f[1:].isdigit() for f in fl)) or set(fl) == {'z0', 'z1'}:
            # one-hot among the main flags; remaining flags free
            main = [nm for nm, f in group if f in ('zi', 'zl', 'zu', 'z0', 'z1') or (f.startswith('s') and f[1:].isdigit())]
            for k in range(N):
                arr[rnd.choice(main)][k] = 1.0
            for nm in names:
                if nm not in main:
                    arr[nm] = [float(rnd.randint(0, 1)) for _ in range(N)]
        else:
            for nm in names:
                arr[nm] = [float(rnd.randint(0, 1)) for _ in range(N)]
        vals.update(arr)
        flags_done.update(names)
    for name, kind in spec:
        if name in flags_done:
            continue
        if kind == 'flag':
            vals[name] = [float(rnd.randint(0, 1)) for _ in range(N)]
        elif kind == 'cservice':
            vals[name] = [[num(), num()] for _ in range(N)]
        elif kind == 'config':
            d = model.config.as_dict()[name]
            if d in (0, 1):
                vals[name] = rnd.randint(0, 1)
            else:
                vals[name] = d if rnd.random() < 0.5 else d * rnd.choice([0.5, 2.0])
        elif kind == 'scalar':
            if name == 'dae_t':
                vals[name] = draw(st.sampled_from([-1.0, 0.0, 0.5, 3.0]))
            elif name == 'sys_f':
                vals[name] = rnd.choice([50.0, 60.0])
            else:
                vals[name] = rnd.choice([100.0, 250.0])
        else:
            vals[name] = [num() for _ in range(N)]
    return dict(model=model_name, mode=mode, values=vals)


def to_arrays(model, values):
    out = {}
    kinds = dict(fab.input_spec(model))
    for k, v in values.items():
        if kinds.get(k) == 'cservice':
            out[k] = np.array([complex(a, b) for a, b in v])
        elif isinstance(v, list):
            out[k] = np.array(v, dtype=float)
        else:
            out[k] = np.array(float(v))
    return out


def close(a, b, scale):
    a = np.asarray(a)
    b = np.asarray(b)
    if a.dtype == bool:
        a = a.astype(float)
    if b.dtype == bool:
        b = b.astype(float)
    with np.errstate(all='ignore'):
        tol = 1e-9 * (1.0 + np.abs(a) + np.abs(b) + scale)
        ok = np.abs(a - b) <= tol
    both_nan = np.isnan(a) & np.isnan(b)
    both_inf = np.isinf(a) & np.isinf(b) & (np.sign(a.real) == np.sign(b.real))
    return ok | both_nan | both_inf


def magnitude(arrs):
    m = 1.0
    for v in arrs.values():
        v = np.asarray(v)
        if v.size and np.issubdtype(v.dtype, np.number):
            with np.errstate(all='ignore'):
                m = max(m, float(np.nanmax(np.abs(v))))
    return m


def check_point(ctx, case):
    ss = fab.bare_system()
    model = ss.models[case['model']]
    arrs = to_arrays(model, case['values'])
    subs = {name: inst.v_str for name, inst in model.services_subs.items() if inst.v_str is not None}
    ns_base = dict(arrs)
    scale = magnitude(arrs) ** 2
    mname = case['model']

    def ns():
        return pyeval.Namespace(dict(ns_base), subs)

    def judge(kind, name, expected, got, string):
        exp = np.broadcast_to(np.asarray(expected), (N,)) if np.ndim(expected) <= 1 else np.asarray(expected)
        got = np.broadcast_to(np.asarray(got), exp.shape) if np.ndim(got) <= 1 else np.asarray(got)
        if exp.dtype == bool:
            exp = exp.astype(float)
        if got.dtype == bool:
            got = got.astype(float)
        fin = np.isfinite(exp)
        if not fin.any():
            ctx.count('point:oracle_nonfinite')
            return
        ok = close(exp, got, scale)
        bad = fin & ~ok
        if bad.any() and 'atan2' in str(string):
            # on the branch cut of atan2 the sign of a rounding-level (or signed-zero) argument decides between +pi and -pi:
            # values that differ by a whole turn are the same angle
            turn = np.abs(np.abs(np.asarray(exp, dtype=float) - np.asarray(got, dtype=float)) - 2 * np.pi) < 1e-9
            if (bad & turn).any():
                ctx.count('point:atan2_branch_cut_not_judged', int((bad & turn).sum()))
            bad = bad & ~turn
        if bad.any():
            k = int(np.argmax(bad))
            ctx.fail('generated_value_differs',
                     dict(model=mname, kind=kind, name=name, string=str(string)[:300], device=k,
                          declared=complex(exp.ravel()[k]) if np.iscomplexobj(exp) else float(exp.ravel()[k]),
                          generated=complex(got.ravel()[k]) if np.iscomplexobj(got) else float(got.ravel()[k])),
                     sig=dict(model=mname, kind=kind, name=name))
        ctx.nontrivial(dict(m=mname, k=kind, n=name), sample=dict(model=mname, kind=kind, name=name, string=str(string)[:200],
                                                                  mode=case['mode'],
                                                                  value=[float(np.real(x)) for x in exp.ravel()[:2]]))
        ctx.count('checked:' + kind)

    fab.install(model, arrs, N)
    try:
        # ---- residual equations through Model.f_update / g_update ---------------------------
        got = fab.run_fg(model)
        for name, var in model.cache.all_vars.items():
            if var.e_str is None:
                if np.any(got[name] != 0):
                    ctx.fail('value_delivered_to_undeclared_equation', dict(model=mname, name=name,
                                                                           got=float(np.max(np.abs(got[name])))),
                             sig=dict(model=mname, name=name))
                continue
            judge('e_str', name, pyeval.evaluate(var.e_str, ns()), got[name], var.e_str)
        inp = model._input
        # ---- services --------------------------------------------------------------------------
        for name, inst in model.services.items():
            if inst.v_str is None:
                continue
            if name in model.calls.s and callable(model.calls.s[name]):
                g = model.calls.s[name](*[inp[a] for a in model.calls.s_args[name]])
                judge('service', name, pyeval.evaluate(inst.v_str, ns()), g, inst.v_str)
            elif name in model.calls.s:
                judge('service', name, pyeval.evaluate(inst.v_str, ns()), model.calls.s[name], inst.v_str)
        if callable(model.calls.sns):
            ret = model.calls.sns(*[inp[a] for a in model.calls.sns_args])
            for k, (name, inst) in enumerate(model.services_var_nonseq.items()):
                judge('service_nonseq', name, pyeval.evaluate(inst.v_str if inst.v_str is not None else '0', ns()),
                      ret[k], inst.v_str)
        # ---- initialisers ------------------------------------------------------------------------
        for name, fn in model.calls.ia.items():
            var = model.cache.all_vars[name]
            g = fn(*[inp[a] for a in model.calls.ia_args[name]]) if callable(fn) else fn
            judge('v_str', name, pyeval.evaluate(var.v_str, ns()), g, var.v_str)
        for cname, fn in model.calls.ii.items():
            # iterative sets: the name is '_'.join(variable names); find the member list
            members = None
            for item in model.calls.init_seq:
                if isinstance(item, list) and '_'.join(item) == cname:
                    members = item
                elif isinstance(item, str) and item == cname:
                    members = [item]
            if members is None:
                ctx.count('init:iter_set_not_in_seq')
                continue
            for pos in range(N):
                args = [np.asarray(inp[a]).ravel()[pos] if np.ndim(inp[a]) else inp[a] for a in model.calls.ii_args[cname]]
                g = np.ravel(fn(*args))
                for k, vn in enumerate(members):
                    var = model.cache.all_vars[vn]
                    exp = pyeval.evaluate(var.v_iter, ns())
                    exp = np.broadcast_to(np.asarray(exp), (N,))[pos]
                    if np.isfinite(exp) and not close(exp, g[k], scale):
                        ctx.fail('generated_value_differs', dict(model=mname, kind='v_iter', name=vn, device=pos,
                                                                  declared=float(exp), generated=float(g[k]),
                                                                  string=str(var.v_iter)[:300]),
                                 sig=dict(model=mname, kind='v_iter', name=vn))
            for vn in members:
                ctx.nontrivial(dict(m=mname, k='v_iter', n=vn))
                ctx.count('checked:v_iter')
    finally:
        fab.uninstall(model)


def camp_equations(ctx):
    names = model_names()
    mine = [m for i, m in enumerate(names) if i % ctx.nshards == ctx.shard]
    npts = 150 if ctx.tier == "quick" else 2000
    ctx.extra['models_covered'] = {}
    for m in mine:
        def body(case):
            ctx.evaluated()
            ctx.count('mode:' + case['mode'])
            check_point(ctx, case)
        drive(ctx, points(m), body, npts, name='eq-' + m, chunk=50, shrink=False)
        ctx.extra['models_covered'][m] = npts
        if ctx.violations:
            break


# ---------------------------------------------------------------------------------------------
# Regeneration: code generated again from the unchanged model is functionally identical
# ---------------------------------------------------------------------------------------------

_REGEN = r"""
import sys
sys.path.insert(0, %r)
import andes
andes.main.config_logger(stream_level=50, file=False)
ss = andes.System(no_undill=True, default_config=True, no_output=True)
ss.prepare(quick=True, models=%r, ncpu=%d)
"""


def _load_module(path, tag):
    import importlib.util
    spec = importlib.util.spec_from_file_location(tag, path)
    mod = importlib.util.module_from_spec(spec)
    spec.loader.exec_module(mod)
    return mod


def camp_regen(ctx):
    import os
    import subprocess
    import hypothesis
    from .. import sandbox
    from ..runner import subseed
    names = model_names()
    nper = 6 if ctx.tier == 'quick' else max(1, len(names) // ctx.nshards + 1)
    import random as _r   # used only to derive a deterministic subset from the seed (not inside a property)
    order = list(names)
    _r.Random(subseed(ctx.seed, 'regen')).shuffle(order)
    mine = order[ctx.shard::ctx.nshards][:nper]
    home2 = sandbox.scratch_dir('regen-home')
    os.makedirs(os.path.join(home2, '.andes'), exist_ok=True)
    env = dict(os.environ, HOME=home2, PYTHONHASHSEED=str(1 + subseed(ctx.seed, 'hs', ctx.shard) % 4000))
    r = subprocess.run([sandbox.PY, '-c', _REGEN % (sandbox.REPO, mine, 4)], env=env, cwd=home2,
                       stdout=subprocess.PIPE, stderr=subprocess.STDOUT, text=True)
    if r.returncode != 0:
        raise RuntimeError('regeneration subprocess failed: ' + r.stdout[-2000:])
    dir_a = os.path.join(os.environ['HOME'], '.andes', 'pycode')
    dir_b = os.path.join(home2, '.andes', 'pycode')
    ss = fab.bare_system()
    for m in mine:
        A = _load_module(os.path.join(dir_a, m + '.py'), 'pcA_' + m)
        B = _load_module(os.path.join(dir_b, m + '.py'), 'pcB_' + m)
        model = ss.models[m]
        fnames = sorted(k for k, v in vars(A).items() if callable(v) and getattr(v, '__module__', '') == A.__name__)
        fnames_b = sorted(k for k, v in vars(B).items() if callable(v) and getattr(v, '__module__', '') == B.__name__)
        if fnames != fnames_b:
            ctx.fail('regenerated_function_set_differs', dict(model=m, a=fnames, b=fnames_b), sig=dict(model=m))
        for meta in ('md5', 'f_args', 'g_args', 'j_args', 's_args', 'sns_args', 'ia_args', 'ii_args', 'ij_args', 'init_seq',
                     'ijac', 'jjac', 'vjac'):
            if getattr(A, meta, None) != getattr(B, meta, None):
                ctx.fail('regenerated_metadata_differs', dict(model=m, item=meta), sig=dict(model=m, item=meta))

        def argnames(mod, fn):
            if fn == 'f_update':
                return mod.f_args
            if fn == 'g_update':
                return mod.g_args
            if fn == 'sns_update':
                return mod.sns_args
            for suffix, table in (('_update', 'j_args'), ('_svc', 's_args'), ('_ia', 'ia_args'), ('_ii', 'ii_args'),
                                  ('_ij', 'ij_args')):
                if fn.endswith(suffix):
                    return getattr(mod, table)[fn[:-len(suffix)]]
            return None

        def body(case, m=m, A=A, B=B, model=model, fnames=fnames):
            ctx.evaluated()
            arrs = to_arrays(model, case['values'])
            arrs.update({'__zeros': np.zeros(N), '__ones': np.ones(N), '__falses': np.full(N, False),
                         '__trues': np.full(N, True)})
            for fn in fnames:
                an = argnames(A, fn)
                if an is None:
                    continue
                scalar = fn.endswith(('_ii', '_ij'))
                for pos in ([0, N - 1] if scalar else [None]):
                    args = [arrs[a] if (pos is None or np.ndim(arrs[a]) == 0) else arrs[a][pos] for a in an]
                    with np.errstate(all='ignore'):
                        ra = getattr(A, fn)(*args)
                        rb = getattr(B, fn)(*args)
                    fa = np.concatenate([np.ravel(np.asarray(x, dtype=complex)) for x in (ra if isinstance(ra, (tuple, list)) else [ra])])
                    fb = np.concatenate([np.ravel(np.asarray(x, dtype=complex)) for x in (rb if isinstance(rb, (tuple, list)) else [rb])])
                    same = fa.shape == fb.shape and bool(np.all(close(fa, fb, 1.0)))
                    if not same:
                        ctx.fail('regenerated_function_differs', dict(model=m, function=fn), sig=dict(model=m, function=fn))
                ctx.nontrivial(dict(regen=m, fn=fn), sample=dict(regen=m, function=fn))
            ctx.count('regen:model_points')
        drive(ctx, points(m), body, 10 if ctx.tier == 'quick' else 60, name='regen-' + m, shrink=False)
        if ctx.violations:
            break


# ---------------------------------------------------------------------------------------------
# Staleness: code that no longer matches the model is never silently used
# ---------------------------------------------------------------------------------------------

ALTER_KINDS = ['e_str', 'v_str', 'v_iter', 'service', 'diag_eps']


def _candidates(model):
    out = {k: [] for k in ALTER_KINDS}
    for name, var in model.cache.all_vars.items():
        if var.e_str is not None:
            out['e_str'].append(name)
        if var.v_str is not None:
            out['v_str'].append(name)
        if var.v_iter is not None:
            out['v_iter'].append(name)
        if var.diag_eps not in (0.0, None, False) and var.e_code == 'g' and name in model.algebs:
            out['diag_eps'].append(name)
    for name, sv in model.services.items():
        if getattr(sv, 'v_str', None) is not None and name not in model.services_subs:
            out['service'].append(name)
    return out


def stale_case(ctx, case):
    """Alter one declared string of one model class, build a System on the old generated code."""
    import importlib
    import shutil
    import os
    import andes
    from andes.models import file_classes
    from .. import build, sandbox
    mname, kind, target = case['model'], case['kind'], case['target']
    cls = None
    for fname, cls_list in file_classes:
        if mname in cls_list:
            cls = getattr(importlib.import_module('andes.models.' + fname), mname)
    orig_init = cls.__init__
    pyfile = os.path.join(os.environ['HOME'], '.andes', 'pycode', mname + '.py')
    backup = open(pyfile).read()

    def patched(self, *a, **k):
        orig_init(self, *a, **k)
        obj = self.__dict__[target]
        if kind == 'e_str':
            obj.e_str = '2*(' + obj.e_str + ')'
        elif kind == 'v_str':
            obj.v_str = '(' + str(obj.v_str) + ') + 1'
        elif kind == 'v_iter':
            obj.v_iter = '2*(' + obj.v_iter + ')'
        elif kind == 'service':
            obj.v_str = '(' + str(obj.v_str) + ') * 3'
        elif kind == 'diag_eps':
            obj.diag_eps = 3e-5

    cls.__init__ = patched
    try:
        try:
            ss = build.new_system(autogen_stale=case.get('autogen', True))
        except Exception as e:
            ctx.count('stale:construction_raised')     # loud, not silent
            return
        model = ss.models[mname]
        fresh = getattr(model.calls, 'md5', None) == model.get_md5()
        ctx.count('stale:regenerated' if fresh else 'stale:left_stale')
        if not case.get('autogen', True):
            # documented opt-out: the stale state must at least be visible (md5 mismatch kept)
            if fresh:
                ctx.count('stale:optout_but_fresh')
            return
        if not fresh:
            ctx.fail('stale_code_kept', dict(model=mname, kind=kind, target=target), sig=dict(kind=kind))
        # the loaded functions must now compute the *new* declaration
        saved = fab._sys.get('ss')
        fab._sys['ss'] = ss
        try:
            if kind == 'diag_eps':
                found = False
                for jn in ('gyc',):
                    for r_, c_, v_ in zip(model.calls.ijac[jn], model.calls.jjac[jn], model.calls.vjac[jn]):
                        names_g = list(model.cache.algebs_and_ext.keys())
                        if names_g[r_] == target and abs(v_ - 3e-5) < 1e-18:
                            found = True
                if not found:
                    ctx.fail('stale_code_used', dict(model=mname, kind=kind, target=target), sig=dict(kind=kind))
            else:
                from hypothesis import given, settings, HealthCheck, seed as hseed
                from ..runner import subseed
                pts = []

                @hseed(subseed(ctx.seed, 'stalepts', mname, target))
                @settings(max_examples=3, database=None, deadline=None, suppress_health_check=list(HealthCheck),
                          phases=[__import__('hypothesis').Phase.generate])
                @given(points(mname))
                def collect(pt):
                    pts.append(pt)
                collect()
                for pt in pts:
                    try:
                        check_point(ctx, pt)
                    except Exception as e:
                        from ..runner import Violation
                        if isinstance(e, Violation):
                            ctx.fail('stale_code_used', dict(model=mname, kind=kind, target=target, inner=str(e)[:300]),
                                     sig=dict(kind=kind))
                        raise
        finally:
            if saved is not None:
                fab._sys['ss'] = saved
            else:
                fab._sys.pop('ss', None)
        ctx.nontrivial(dict(stale=mname, kind=kind, target=target), sample=dict(stale=mname, kind=kind, target=target))
    finally:
        cls.__init__ = orig_init
        open(pyfile, 'w').write(backup)


@st.composite
def stale_cases(draw, names, cands):
    m = draw(st.sampled_from(names))
    kinds = [k for k in ALTER_KINDS if cands[m][k]]
    kind = draw(st.sampled_from(kinds))
    target = draw(st.sampled_from(cands[m][kind]))
    return dict(model=m, kind=kind, target=target, autogen=draw(st.sampled_from([True, True, True, False])))


def camp_stale(ctx):
    ss = fab.bare_system()
    names = [m for m in model_names()]
    cands = {m: _candidates(ss.models[m]) for m in names}
    names = [m for m in names if any(cands[m][k] for k in ALTER_KINDS)]

    def body(case):
        ctx.evaluated()
        ctx.count('stale:kind=' + case['kind'])
        stale_case(ctx, case)
    # anchors: every kind of declared string is altered at least once per run, in a model chosen by seed and shard
    # (kinds such as v_iter and diag_eps exist in a handful of models only, a uniform draw rarely reaches them); the
    # combination v_iter on a variable that also declares v_str is always included when the kind is v_iter
    kinds = [k for k in ALTER_KINDS]
    kind = kinds[(ctx.shard + ctx.seed) % len(kinds)]
    pool = sorted(m for m in names if cands[m][kind])
    if pool:
        m = pool[(ctx.seed * 7 + ctx.shard // len(kinds)) % len(pool)]
        tg = sorted(cands[m][kind])
        both = [t for t in tg if kind == 'v_iter' and ss.models[m].cache.all_vars[t].v_str is not None]
        target = (both or tg)[(ctx.seed + ctx.shard) % len(both or tg)]
        case = dict(model=m, kind=kind, target=target, autogen=True)
        ctx.current_case = case
        ctx.count('stale:anchor:' + kind)
        body(case)
    drive(ctx, stale_cases(names, cands), body, 3 if ctx.tier == 'quick' else 40, name='stale', shrink=False)


# ---------------------------------------------------------------------------------------------
# (d) order of the generated initialisation sequence
# ---------------------------------------------------------------------------------------------

def _value_dependencies(text, allv, subs):
    """Variables the *value* of a declared string depends on: the string is evaluated by the independent evaluator at two
    generic points; a variable is a dependency when changing it alone changes the value (a variable that only appears
    textually, as in 'v + vf0 / K - v', is not)."""
    import zlib
    try:
        names = pyeval.names_in(text)
    except SyntaxError:
        return set()
    for n in list(names):
        if n in subs:
            try:
                names |= pyeval.names_in(subs[n])
            except SyntaxError:
                pass
    cands = [n for n in names if n in allv]
    out = set()
    for salt in (0, 1):
        base = {n: 0.55 + ((zlib.crc32(('%s:%d' % (n, salt)).encode()) % 9973) / 9973.0) for n in names if n not in pyeval.FUNCS or n in allv}
        base.setdefault('dae_t', 0.0)
        try:
            f0 = np.asarray(pyeval.evaluate(text, pyeval.Namespace(dict(base), subs=subs)), dtype=complex)
        except Exception:
            return set(cands)        # cannot be evaluated generically: fall back to the textual (conservative) reading
        for n in cands:
            pert = dict(base)
            pert[n] = base[n] * 1.37 + 0.21
            try:
                f1 = np.asarray(pyeval.evaluate(text, pyeval.Namespace(pert, subs=subs)), dtype=complex)
            except Exception:
                out.add(n)
                continue
            if not (np.all(np.isfinite(f0)) and np.all(np.isfinite(f1))):
                continue
            if np.any(np.abs(f1 - f0) > 1e-12 * (1 + np.abs(f0))):
                out.add(n)
    return out


def camp_init_order(ctx):
    """Every variable is initialised exactly once, and only after every variable its declared initialiser (explicit string,
    iterative string, or the model's manually declared dependencies) refers to - variables of one iterative group excepted.
    Exhaustive over the shipped models; the sequence judged is the one stored with the generated code that is loaded."""
    import re
    ss = fab.bare_system()
    ident = re.compile(r'[A-Za-z_][A-Za-z_0-9]*')
    for m in model_names():
        mdl = ss.models[m]
        seq = getattr(mdl.calls, 'init_seq', None)
        if seq is None:
            continue
        ctx.evaluated()
        ctx.current_case = dict(model=m, kind='init_order')
        allv = mdl.cache.all_vars
        subs = {n: sv.v_str for n, sv in mdl.services_subs.items()} if hasattr(mdl, 'services_subs') else {}
        pos, count = {}, {}
        for k, item in enumerate(seq):
            for name in (item if isinstance(item, list) else [item]):
                pos[name] = k
                count[name] = count.get(name, 0) + 1
        wrong = [n for n in allv if count.get(n, 0) != 1]
        if wrong:
            ctx.fail('variable_not_initialised_exactly_once', dict(model=m, variables=wrong[:6], counts=[count.get(n, 0) for n in wrong[:6]]),
                     sig=dict(kind='init_order'))
        ndeps = 0
        for name, var in allv.items():
            deps = set()
            for text in (var.v_str, var.v_iter):
                if isinstance(text, str):
                    deps.update(_value_dependencies(text, allv, subs))
            if getattr(var, 'deps', None):
                deps.update(d for d in var.deps if d in allv)
            deps.discard(name)
            for d in sorted(deps):
                ndeps += 1
                if pos.get(d, -1) > pos.get(name, -1):
                    ctx.fail('initialised_before_its_dependency',
                             dict(model=m, variable=name, depends_on=d, position=pos.get(name), dependency_position=pos.get(d),
                                  declared_manually=bool(getattr(var, 'deps', None) and d in var.deps)),
                             sig=dict(kind='init_order', manual=bool(getattr(var, 'deps', None) and d in var.deps)))
        ctx.count('init_order:dependencies_checked', ndeps)
        if ndeps:
            ctx.nontrivial(dict(model=m, kind='init_order'), sample=dict(model=m, sequence=[str(x) for x in seq][:12], dependencies=ndeps))




CAMPAIGNS = {
    'equations': dict(fn=camp_equations, shards=dict(quick=16, thorough=16)),
    'regen': dict(fn=camp_regen, shards=dict(quick=2, thorough=16)),
    'stale': dict(fn=camp_stale, shards=dict(quick=10, thorough=20)),
    'init_order': dict(fn=camp_init_order, shards=dict(quick=1, thorough=1)),
}


def replay(ctx, rec):
    case = rec['case']
    if 'kind' in case and 'target' in case:
        stale_case(ctx, case)
    else:
        check_point(ctx, case)
