"""C16 - results do not depend on solver back-end, acceleration options or repetition."""
import json
import os
import subprocess
import sys

import numpy as np
from hypothesis import strategies as st

from .. import build, sandbox
from ..runner import drive

RULE = ("(i) system level: stock dynamic cases x back-end configurations {klu, umfpack, spsolve} x linsolve x ipadd (x numba "
        "in the thorough tier): power-flow solution, trajectory at tf and eigenvalues must agree pairwise with the klu "
        "reference to solver precision when all runs use tol = 1e-10 and honest Newton; two fresh processes with different "
        "PYTHONHASHSEED must give bit-identical trajectories. (ii) solver level: generated sequences of calls on one Solver "
        "instance per back-end (same pattern / new values, new pattern, matrices with tiny non-zero diagonal entries that need pivoting, singular then regular, refresh flags set or not, "
        "solve vs linsolve, clear), executed in a journalled subprocess; every call documented to factorise must return x "
        "with |Ax-b| <= 1e-9 |A||x| against a dense numpy residual, a singular matrix must give NaN or an exception and the "
        "next regular call must be right again; a crash of the subprocess is attributed to the journalled step. "
        "Non-trivial = (i) case with >= 1 event, (ii) sequence with >= 1 pattern change and >= 1 singular matrix; "
        "distinct by the JSON of the case / sequence.")
ASSUMPTIONS = [
    "SciPy back-end: solve() is only documented to factorise after new_A or factorize was set; calls without a refresh request are not judged.",
    "CuPy back-end is not available in this sandbox.",
]

# ---------------------------------------------------------------------------------------------
# (ii) solver level
# ---------------------------------------------------------------------------------------------

_CHILD = r'''
import sys, json
sys.path.insert(0, %r)
import numpy as np
from kvxopt import spmatrix, matrix
from andes.linsolvers.solverbase import Solver
print('READY', flush=True)
for line in sys.stdin:
    seq = json.loads(line)
    out = []
    solver = Solver(sparselib=seq['lib'])
    for k, st in enumerate(seq['steps']):
        print('STEP %%d' %% k, flush=True)
        if st['op'] == 'clear':
            solver.clear(); out.append(dict(op='clear')); continue
        n = st['n']
        A = spmatrix(st['V'], st['I'], st['J'], (n, n), 'd')
        b = matrix(st['b'], (n, 1), 'd')
        if st.get('set_factorize'):
            solver.worker.factorize = True
        if st.get('set_new_A'):
            solver.worker.new_A = True
        try:
            x = solver.solve(A, b) if st['op'] == 'solve' else solver.linsolve(A, b)
            out.append(dict(op=st['op'], x=[float(v) for v in np.ravel(x)]))
        except Exception as e:
            out.append(dict(op=st['op'], error='%%s: %%s' %% (type(e).__name__, str(e)[:100])))
    print('RESULT ' + json.dumps(out), flush=True)
'''

_child = {}


def _get_child():
    p = _child.get('p')
    if p is None or p.poll() is not None:
        d = sandbox.scratch_dir('c16')
        f_py = os.path.join(d, 'child-%d.py' % os.getpid())
        open(f_py, 'w').write(_CHILD % sandbox.REPO)
        p = subprocess.Popen([sandbox.PY, '-u', f_py], stdin=subprocess.PIPE, stdout=subprocess.PIPE, stderr=subprocess.DEVNULL, text=True)
        line = p.stdout.readline()
        if not line.startswith('READY'):
            raise RuntimeError('solver child did not start')
        _child['p'] = p
    return p


def _run_in_child(seq):
    """Returns (results or None, last journalled step, returncode)."""
    p = _get_child()
    p.stdin.write(json.dumps(seq) + "\n")
    p.stdin.flush()
    last = None
    while True:
        line = p.stdout.readline()
        if not line:
            rc = p.wait()
            _child['p'] = None
            return None, last, rc
        if line.startswith('STEP'):
            last = int(line.split()[1])
        elif line.startswith('RESULT'):
            return json.loads(line[7:]), last, 0


@st.composite
def sequences(draw):
    lib = draw(st.sampled_from(['klu', 'umfpack', 'spsolve']))
    rnd = draw(st.randoms(use_true_random=False))
    n = draw(st.integers(1, 12))
    steps = []

    def pattern(n):
        I, J = list(range(n)), list(range(n))
        for _ in range(rnd.randint(0, 2 * n)):
            i, j = rnd.randrange(n), rnd.randrange(n)
            if (i, j) not in zip(I, J):
                I.append(i)
                J.append(j)
        return I, J

    I, J = pattern(n)
    for k in range(draw(st.integers(2, 8))):
        kind = draw(st.sampled_from(['same', 'same', 'values', 'values', 'pattern', 'singular', 'resize', 'clear', 'weakdiag', 'weakdiag']))
        if kind == 'clear':
            steps.append(dict(op='clear'))
            continue
        if kind == 'pattern':
            I, J = pattern(n)
        if kind == 'resize':
            n = draw(st.integers(1, 12))
            I, J = pattern(n)
        perm = None
        if kind == 'weakdiag' and n >= 2:
            # a regular, well-conditioned matrix whose diagonal entries are non-zero but tiny (like the 1e-8 entries ANDES
            # reserves on the algebraic diagonal): the dominant entries sit on a permutation, so the factorisation must pivot
            perm = list(range(n))
            rnd.shuffle(perm)
            I, J = pattern(n)
            for i in range(n):
                if (i, perm[i]) not in zip(I, J):
                    I.append(i)
                    J.append(perm[i])
        V = []
        for i, j in zip(I, J):
            if perm is not None:
                if j == perm[i]:
                    V.append(rnd.choice([-1, 1]) * rnd.uniform(3.0, 6.0) * (1 + len(I) / max(1, n)))
                elif i == j:
                    V.append(rnd.choice([-1, 1]) * rnd.choice([1e-8, 1e-9, 1e-6, 1e-13]))
                else:
                    V.append(rnd.uniform(-1.0, 1.0))
            elif i == j:
                V.append(rnd.choice([-1, 1]) * rnd.uniform(3.0, 6.0) * (1 + len(I) / max(1, n)))
            else:
                V.append(rnd.uniform(-1.0, 1.0))
        singular = kind == 'singular' and n >= 1
        if singular:
            # zero out one row (values explicitly zero keep the pattern; kvxopt may drop them)
            r = rnd.randrange(n)
            V = [0.0 if i == r else v for i, v in zip(I, V)]
        steps.append(dict(op=draw(st.sampled_from(['solve', 'solve', 'linsolve'])), n=n, I=list(I), J=list(J), V=V,
                          b=[rnd.uniform(-2, 2) for _ in range(n)], kind=kind, singular=singular,
                          set_factorize=draw(st.sampled_from([False, False, True])),
                          set_new_A=draw(st.sampled_from([False, True]))))
    return dict(lib=lib, steps=steps)


def solver_case(ctx, seq):
    out, last, rc = _run_in_child(seq)
    ctx.count('lib:' + seq['lib'])
    kinds = [s.get('kind', 'clear') for s in seq['steps']]
    if out is None:
        step = seq['steps'][last] if last is not None else None
        prev_kinds = kinds[:last + 1] if last is not None else kinds
        ctx.fail('solver_process_crashed', dict(sequence=seq, returncode=rc, at_step=last, step_kind=step.get('kind') if step else None),
                 sig=dict(lib=seq['lib'], signal=rc < 0,
                          pattern_changed_with_cached_symbolic=bool(step and step['op'] == 'solve' and step.get('kind') in ('pattern', 'resize', 'singular', 'weakdiag')
                                                                    and not step.get('set_factorize'))))
        return
    refreshed_ever = False
    after_clear = True
    for k, (stp, res) in enumerate(zip(seq['steps'], out)):
        if stp['op'] == 'clear':
            after_clear = True
            continue
        n = stp['n']
        A = np.zeros((n, n))
        for i, j, v in zip(stp['I'], stp['J'], stp['V']):
            A[i, j] += v
        b = np.array(stp['b'])
        regular = (not stp['singular']) and np.linalg.cond(A) < 1e10
        documented = True
        if seq['lib'] == 'spsolve' and stp['op'] == 'solve':
            # SciPy back-end factorises in solve() only when a refresh was requested (or at the very first call)
            documented = bool(stp.get('set_factorize') or stp.get('set_new_A') or k == 0 or not refreshed_ever)
            refreshed_ever = True
        sig = dict(lib=seq['lib'], op=stp['op'], kind=stp['kind'])
        if 'error' in res:
            if regular and documented:
                ctx.fail('regular_system_not_solved', dict(sequence=seq, step=k, error=res['error']), sig=sig)
            continue
        x = np.array(res['x'])
        if regular and documented:
            if len(x) != n or not np.all(np.isfinite(x)) or np.linalg.norm(A @ x - b) > 1e-9 * (np.linalg.norm(A) * np.linalg.norm(x) + np.linalg.norm(b)):
                resid = float(np.linalg.norm(A @ x - b)) if len(x) == n and np.all(np.isfinite(x)) else None
                ctx.fail('solution_does_not_satisfy_system', dict(sequence=seq, step=k, residual=resid, previous_kinds=kinds[:k]),
                         sig=dict(sig, after_singular=bool(k > 0 and seq['steps'][k - 1].get('singular'))))
        elif stp['singular'] and documented:
            if np.all(np.isfinite(x)) and len(x) == n and np.linalg.norm(A @ x - b) > 1e-6 * (1 + np.linalg.norm(b)):
                ctx.fail('singular_system_returned_finite_wrong_answer', dict(sequence=seq, step=k, x=x.tolist()[:6]), sig=sig)
    for kd in kinds:
        ctx.count('step:' + kd)
    if any(kd in ('pattern', 'resize') for kd in kinds) and 'singular' in kinds:
        ctx.nontrivial(seq, sample=dict(lib=seq['lib'], kinds=kinds, ops=[s['op'] for s in seq['steps']]))


def camp_solver(ctx):
    def body(seq):
        ctx.evaluated()
        solver_case(ctx, seq)
    drive(ctx, sequences(), body, 250 if ctx.tier == 'quick' else 6000, name='solver', chunk=30, shrink_budget_s=30,
          budget_s=150 if ctx.tier == 'quick' else 1500)


# ---------------------------------------------------------------------------------------------
# (i) system level
# ---------------------------------------------------------------------------------------------

SYS = ['kundur/kundur_full.xlsx', 'ieee14/ieee14_full.xlsx', '5bus/pjm5bus.xlsx', 'kundur/kundur_ieeest.xlsx', 'ieee14/ieee14_fault.xlsx']
LIBS = ['klu', 'umfpack', 'spsolve']


def run_system(path, lib, linsolve, ipadd, numba=0, tf=1.2, eig=True):
    rc = {'System': dict(ipadd=ipadd, numba=numba),
          'PFlow': dict(report=0, sparselib=lib, linsolve=linsolve, tol=1e-10),
          'TDS': dict(no_tqdm=1, tf=tf, sparselib=lib, linsolve=linsolve, tol=1e-10, honest=1, criteria=0),
          'EIG': dict(sparselib=lib, linsolve=linsolve)}
    ss = build.load_case(path, rc=rc)
    assert ss.PFlow.solver.sparselib == lib and ss.TDS.solver.sparselib == lib
    out = dict(pf=bool(ss.PFlow.run()))
    out['v'] = ss.Bus.v.v.copy()
    out['a'] = ss.Bus.a.v.copy()
    if eig and out['pf']:
        try:
            ss.EIG.run()
            out['mu'] = np.sort_complex(np.array(ss.EIG.mu))
        except Exception as e:
            out['mu_err'] = type(e).__name__
        # EIG initialises TDS; reload for the trajectory to keep the runs independent
        ss = build.load_case(path, rc=rc)
        ss.PFlow.run()
    if out['pf']:
        out['tds'] = bool(ss.TDS.run())
        out['x'] = ss.dae.x.copy()
        out['nt'] = len(ss.dae.ts.t)
    return out


@st.composite
def sys_cases(draw):
    return dict(path=draw(st.sampled_from(SYS)), lib=draw(st.sampled_from(LIBS)), linsolve=draw(st.sampled_from([0, 1])),
                ipadd=draw(st.sampled_from([0, 1])), numba=0)


def sys_case(ctx, c):
    path = os.path.join(build.cases_root(), c['path'])
    ref = run_system(path, 'klu', 0, 1)
    got = run_system(path, c['lib'], c['linsolve'], c['ipadd'], c.get('numba', 0))
    ctx.count('cfg:%s/linsolve=%d/ipadd=%d' % (c['lib'], c['linsolve'], c['ipadd']))
    sig = dict(lib=c['lib'], linsolve=c['linsolve'], ipadd=c['ipadd'])
    if ref['pf'] != got['pf']:
        ctx.fail('power_flow_verdict_depends_on_backend', dict(case=c, ref=ref['pf'], got=got['pf']), sig=sig)
        return
    if not ref['pf']:
        return
    if np.max(np.abs(ref['v'] - got['v'])) > 1e-8 or np.max(np.abs(ref['a'] - got['a'])) > 1e-8:
        ctx.fail('power_flow_solution_depends_on_backend', dict(case=c, dv=float(np.max(np.abs(ref['v'] - got['v'])))), sig=sig)
    if ref.get('tds') != got.get('tds'):
        ctx.fail('simulation_verdict_depends_on_backend', dict(case=c, ref=ref.get('tds'), got=got.get('tds')), sig=sig)
    elif ref.get('tds'):
        d = np.abs(ref['x'] - got['x']) / (1 + np.abs(ref['x']))
        if len(ref['x']) and np.max(d) > 1e-7:
            ctx.fail('trajectory_depends_on_backend', dict(case=c, max_rel_diff=float(np.max(d))), sig=sig)
    if 'mu' in ref and 'mu' in got:
        if len(ref['mu']) != len(got['mu']):
            ctx.fail('eigenvalues_depend_on_backend', dict(case=c, n=[len(ref['mu']), len(got['mu'])]), sig=sig)
        else:
            from .c08 import match
            w = match(list(ref['mu']), list(got['mu']), 1e-5)
            if w is None or w > 1.0:
                ctx.fail('eigenvalues_depend_on_backend', dict(case=c, worst=w), sig=sig)
    ctx.nontrivial(c, sample=dict(case=c, steps=ref.get('nt')))


_REPEAT = r'''
import sys, os, hashlib
sys.path.insert(0, %r)
sys.path.insert(0, %r)
from vf import sandbox, build
sandbox.worker_home('c16rep')
import numpy as np
ss = build.load_case(%r, rc={'PFlow': dict(report=0), 'TDS': dict(no_tqdm=1, tf=1.0, criteria=0)})
ss.PFlow.run(); ss.TDS.run()
h = hashlib.sha1(np.ascontiguousarray(ss.dae.ts.xy).tobytes()).hexdigest()
print('HASH', h, len(ss.dae.ts.t))
'''


def camp_system(ctx):
    def body(c):
        ctx.evaluated()
        sys_case(ctx, c)
    drive(ctx, sys_cases(), body, 2 if ctx.tier == 'quick' else 40, name='system', shrink=False, budget_s=160 if ctx.tier == 'quick' else 1500)
    if ctx.shard == 0:
        # repetition in fresh processes with different hash seeds
        for rel in ('kundur/kundur_full.xlsx', 'ieee14/ieee14_full.xlsx'):
            path = os.path.join(build.cases_root(), rel)
            hashes = []
            # string hashing decides the iteration order of sets and of dicts keyed by hash: four seeds give 4! / ... chances
            # for an order-dependent summation to show
            for hs in ('1', '2', '3', '77'):
                env = dict(os.environ, PYTHONHASHSEED=hs)
                r = subprocess.run([sandbox.PY, '-c', _REPEAT % (sandbox.REPO, sandbox.VERIF, path)], env=env, stdout=subprocess.PIPE,
                                   stderr=subprocess.STDOUT, text=True)
                line = [ln for ln in r.stdout.splitlines() if ln.startswith('HASH')]
                if not line:
                    raise RuntimeError('repeat run failed: ' + r.stdout[-500:])
                hashes.append(line[0])
            ctx.evaluated()
            ctx.count('repeat:fresh_process_sets')
            if len(set(hashes)) != 1:
                ctx.fail('fresh_process_not_bit_identical', dict(case=rel, hashes=hashes), sig=dict())
            ctx.nontrivial(dict(repeat=rel), sample=dict(repeat=hashes))


CAMPAIGNS = {
    'solver': dict(fn=camp_solver, shards=dict(quick=8, thorough=12)),
    'system': dict(fn=camp_system, shards=dict(quick=8, thorough=16)),
}


def replay(ctx, rec):
    c = rec['case']
    if 'steps' in c:
        solver_case(ctx, c)
    else:
        sys_case(ctx, c)
