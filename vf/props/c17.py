"""C17 - failure is reported as failure."""
import copy
import json
import os
import shutil

import numpy as np
from hypothesis import strategies as st
from hypothesis.stateful import RuleBasedStateMachine, initialize, invariant, precondition, rule

from .. import build, sandbox, sim
from ..gen import net as gnet
from ..oracle import pf as opf
from ..runner import drive, drive_machine
from . import c01, c06

RULE = ("Fault injection, two-sided oracle. (pf) generated networks x injected infeasibility (loads scaled 3..100x, no "
        "online slack, multi-bus island without slack, near-zero impedance branch, NaN / inf written into a parameter "
        "after setup, iteration limit 0..2, tolerance 1e-14) x method/solver: a True return needs finite state, "
        "converged flag, exit code 0 and the independent nodal balance of C01; a False return (or exception) needs "
        "exit code != 0 and converged False, after which TDS.run and EIG.run must return False / raise, leave dae.x, "
        "dae.y, dae.t untouched and keep exit code != 0. (tds) stock dynamic cases x destabilising schedules (long "
        "solid faults, line trips that island machines, a split followed by a fault inside the largest island, absurd parameter alterations) x configuration (fixed step "
        "without shrinking, huge step, max_iter 1..3, tol 1e-12, criteria on): True needs t == tf exactly, no NaN in "
        "state or stored series, busted False, exit code 0; False needs exit code != 0; NaN state, t < tf or busted "
        "need False; every stored row follows a step attempt that returned True and whose last Newton increment "
        "passed the tolerance test (or was accepted by the documented chattering rule); a repeated run after failure "
        "returns False again. (seq) stateful machine over routine sequences PFlow / TDS.run(tf) / EIG.run / stress "
        "/ repair with a model of 'did the last power flow or any routine after it fail'. (cli) andes.run(..., "
        "cli=True) on good, infeasible, unstable, missing, empty, truncated, bit-flipped and wrong-format files, one or "
        "several at a time, Process and Pool back ends: exit code 0 iff every case is independently known good; "
        "!= 0 or an exception for every case with a failing member. Non-trivial = a case in which ANDES actually took "
        "a failure path (counted per path) or succeeded under an injected stress; distinct by case JSON.")
ASSUMPTIONS = [
    "An exception that propagates to the caller is a report of failure (the process ends with a non-zero status); the one exception is a dependent routine called after a power flow that returned False: there refusing means returning False.",
    "Buses that ANDES reports as islanded (no online branch) are exempt from the balance oracle: their equations are "
    "replaced by design; multi-bus islands are not exempt.",
    "A step accepted by the documented chattering rule (TDS.chatter) counts as having passed the routine's test; such "
    "steps are counted in the evidence.",
    "TDS.test_init failing counts as 'failed initialisation' (ANDES itself logs 'Initialization failed!!' and adds 1 to the exit code).",
    "A converged power flow whose bus voltage magnitudes are not all positive (a mirror root of the polar equations, reached under "
    "heavy overload) is judged on its flags only.",
    "Unparsable input is restricted to files an independent reader rejects: missing, empty, truncated zip / JSON, "
    "random bytes, unknown extension.",
]

METHODS = ['NR', 'NR', 'NR', 'dishonest', 'NK']
LIBS = ['klu', 'klu', 'umfpack', 'spsolve']
FAULTS = ['overload', 'overload', 'no_slack', 'island_no_slack', 'tiny_z', 'zero_z', 'nan_param', 'inf_param', 'max_iter', 'tight_tol', 'none']


# ---------------------------------------------------------------------------------------------
# (pf)
# ---------------------------------------------------------------------------------------------

@st.composite
def pf_cases(draw):
    net = draw(gnet.networks(max_buses=8))
    return dict(net=net, fault=draw(st.sampled_from(FAULTS)), k=draw(st.sampled_from([3.0, 10.0, 30.0, 100.0])),
                sel=draw(st.integers(0, 50)), method=draw(st.sampled_from(METHODS)), lib=draw(st.sampled_from(LIBS)),
                linsolve=draw(st.sampled_from([0, 0, 1])), max_iter=draw(st.sampled_from([0, 1, 2])),
                field=draw(st.sampled_from(['line_x', 'line_r', 'pq_p0', 'pv_v0', 'line_tap', 'shunt_b'])),
                follow=draw(st.sampled_from(['tds', 'eig', 'tds+eig', 'eig+tds'])))


def inject_static(net, c):
    """Faults expressible in the input data."""
    net = copy.deepcopy(net)
    f = c['fault']
    if f == 'overload':
        for d in net['pqs']:
            d['p0'] *= c['k']
            d['q0'] *= c['k']
    elif f == 'no_slack':
        for g in net['slacks']:
            g['u'] = 0
    elif f in ('tiny_z', 'zero_z') and net['lines']:
        ln = net['lines'][c['sel'] % len(net['lines'])]
        ln['r'] = 0.0
        ln['x'] = 1e-6 if f == 'tiny_z' else 0.0
    elif f == 'island_no_slack':
        # cut every branch between {first two non-slack buses reachable} and the rest: done on the built system (needs topology)
        pass
    return net


def split_island(net):
    """Switch off the branches that connect a >=2-bus group without slack to the rest. Returns the group or None."""
    slack_buses = set(opf._key(g['bus']) for g in net['slacks'] if g['u'])
    adj = {}
    for ln in net['lines']:
        if ln['u']:
            a, b = opf._key(ln['bus1']), opf._key(ln['bus2'])
            adj.setdefault(a, set()).add(b)
            adj.setdefault(b, set()).add(a)
    for a in sorted(adj, key=repr):
        if a in slack_buses:
            continue
        for b in sorted(adj[a], key=repr):
            if b in slack_buses or b == a:
                continue
            grp = {a, b}
            for ln in net['lines']:
                x, y = opf._key(ln['bus1']), opf._key(ln['bus2'])
                if (x in grp) != (y in grp):
                    ln['u'] = 0
            return grp
    return None


def rc_pf(c):
    d = dict(method=c['method'], sparselib=c['lib'], linsolve=c['linsolve'], report=0)
    if c['fault'] == 'max_iter':
        d['max_iter'] = c['max_iter']
    if c['fault'] == 'tight_tol':
        d['tol'] = 1e-14
    return {'PFlow': d, 'TDS': dict(no_tqdm=1, tf=0.1), 'EIG': dict(plot=0)}


def finite(a):
    return bool(np.all(np.isfinite(np.asarray(a, dtype=float))))


def follow_up(ctx, ss, order, sig, brief):
    """After a failed power flow: dependent routines refuse, leave the state alone, keep the exit code non-zero."""
    for r in order.split('+'):
        rt = ss.TDS if r == 'tds' else ss.EIG
        x0, y0, t0 = ss.dae.x.copy(), ss.dae.y.copy(), float(ss.dae.t)
        try:
            ret = rt.run()
            raised = None
        except Exception as e:
            ret, raised = None, type(e).__name__
        ctx.count('followup:%s:%s' % (r, 'raised' if raised else repr(bool(ret))))
        if raised is not None:
            # refusing means returning False: an exception from inside the routine shows it started on the invalid state
            ctx.fail('dependent_routine_started_on_invalid_state', dict(case=brief, routine=r, raised=raised), sig=dict(sig, routine=r))
            return
        if ret is not False:
            ctx.fail('dependent_routine_ran_after_failed_power_flow', dict(case=brief, routine=r, returned=repr(ret)), sig=dict(sig, routine=r))
            return
        if ss.exit_code == 0:
            ctx.fail('exit_code_zero_after_failure', dict(case=brief, after=r), sig=dict(sig, routine=r))
            return
        if raised is None:
            same = (len(ss.dae.x) == len(x0) and len(ss.dae.y) == len(y0)
                    and np.array_equal(ss.dae.x, x0, equal_nan=True) and np.array_equal(ss.dae.y, y0, equal_nan=True)
                    and float(ss.dae.t) == t0)
            if not same:
                ctx.fail('refusing_routine_changed_the_state', dict(case=brief, routine=r, t_before=t0, t_after=float(ss.dae.t),
                                                                     n_before=[len(x0), len(y0)], n_after=[len(ss.dae.x), len(ss.dae.y)]),
                         sig=dict(sig, routine=r))
                return


def pf_case(ctx, c):
    net = inject_static(c['net'], c)
    fault = c['fault']
    grp = None
    if fault == 'island_no_slack':
        grp = split_island(net)
        if grp is None:
            fault = 'none'
    brief = dict(fault=fault, k=c['k'], method=c['method'], lib=c['lib'], linsolve=c['linsolve'], net=c01._compact(net))
    sig = dict(fault=fault, method=c['method'])
    ctx.count('fault:' + fault)
    try:
        ss = build.build_static(net, rc_pf(c), permute=False)
    except Exception as e:
        ctx.count('setup_raised:' + type(e).__name__)
        return
    if fault in ('nan_param', 'inf_param'):
        val = float('nan') if fault == 'nan_param' else float('inf')
        mdl, fld = dict(line_x=('Line', 'x'), line_r=('Line', 'r'), pq_p0=('PQ', 'p0'), pv_v0=('PV', 'v0'),
                        line_tap=('Line', 'tap'), shunt_b=('Shunt', 'b'))[c['field']]
        m = getattr(ss, mdl)
        if m.n == 0:
            mdl, fld, m = 'Line', 'x', ss.Line
        k = c['sel'] % m.n
        if not m.u.v[k]:
            ctx.count('skip:poisoned_device_offline')
            return
        getattr(m, fld).v[k] = val            # corrupt data after setup (NumParam.add would replace NaN by the default)
        brief.update(poisoned='%s.%s[%d]' % (mdl, fld, k))
        sig.update(field=c['field'])
    raised = None
    try:
        ret = ss.PFlow.run()
    except Exception as e:
        ret, raised = None, type(e).__name__
    path = 'raised:' + raised if raised else ('true' if ret else 'false')
    ctx.count('pf:%s:%s' % (fault, path))
    state_ok = finite(ss.dae.x) and finite(ss.dae.y)
    if raised is None and ret not in (True, False) and not isinstance(ret, (bool, np.bool_)):
        ctx.fail('return_value_is_not_a_flag', dict(case=brief, returned=repr(ret)), sig=sig)
        return
    if raised is None and ret:
        # ---- success => valid --------------------------------------------------------------------------------
        if not state_ok:
            ctx.fail('success_with_nan_state', dict(case=brief), sig=sig)
            return
        if not ss.PFlow.converged or ss.exit_code != 0:
            ctx.fail('flags_disagree_with_return', dict(case=brief, converged=bool(ss.PFlow.converged), exit_code=int(ss.exit_code), returned=True), sig=sig)
            return
        if fault in ('nan_param', 'inf_param'):
            # the data themselves are not a network: only demand that the claimed solution satisfies ANDES' own equations
            ss.PFlow.fg_update() if hasattr(ss.PFlow, 'fg_update') else None
            res = max(float(np.max(np.abs(ss.dae.g))) if ss.dae.m else 0.0, float(np.max(np.abs(ss.dae.f))) if ss.dae.n else 0.0)
            if not np.isfinite(res) or res > 1e-3:
                ctx.fail('success_with_nonfinite_or_large_residual', dict(case=brief, residual=res), sig=sig)
            else:
                ctx.count('pf:poison_had_no_effect')
            return
        res = dict(V={opf._key(i): (float(ss.Bus.v.v[k]), float(ss.Bus.a.v[k])) for k, i in enumerate(ss.Bus.idx.v)},
                   gen={})
        for k, i in enumerate(ss.PV.idx.v):
            res['gen'][('pvs', opf._key(i))] = (float(ss.PV.p.v[k]), float(ss.PV.q.v[k]))
        for k, i in enumerate(ss.Slack.idx.v):
            res['gen'][('slacks', opf._key(i))] = (float(ss.Slack.p.v[k]), float(ss.Slack.q.v[k]))
        V = c01.vvec(net, res)
        if np.any(np.asarray(ss.Bus.v.v) <= 0):
            # a root of the polar equations with a negative magnitude (|v| at angle + pi): ANDES' voltage-dependent load
            # switching is defined on the signed value there, the oracle's on |V|; the flags are judged, the balance is not
            ctx.count('pf:negative_magnitude_root_balance_not_judged')
            ctx.nontrivial(dict(c=brief), sample=dict(fault=fault, outcome='converged to a negative-magnitude root (flags judged only)', method=c['method']))
            return
        if fault == 'zero_z':
            # ANDES models an exact zero impedance as 1e-8 (1 + j): with an admittance of 1e8 the balance oracle would
            # amplify rounding of the voltages beyond any useful bound; only the flags are judged
            ctx.count('pf:zero_z_balance_not_judged')
            ctx.nontrivial(dict(c=brief), sample=dict(fault=fault, outcome='converged (flags judged only)', method=c['method']))
            return
        mis, reg, modes = opf.mismatch(net, V, res['gen'])
        tol = float(ss.PFlow.config.tol)
        bound = 2 * max(tol, 1e-6) + 4 * reg + 1e-9
        isl = set(int(k) for k in ss.Bus.islanded_buses)
        bi = opf.bus_index(net)
        exempt = np.array([ss.Bus.idx2uid(b['idx']) in isl for b in net['buses']])
        excess = np.where(exempt, -1.0, np.abs(mis) - bound)
        w = int(np.argmax(excess))
        if excess[w] > 0:
            ctx.fail('success_but_network_equations_violated', dict(case=brief, bus=net['buses'][w]['idx'], mismatch=[float(mis[w].real), float(mis[w].imag)],
                                                                     bound=float(bound[w])), sig=dict(sig, big=bool(abs(mis[w]) > 1e-3)))
            return
        if fault != 'none':
            ctx.nontrivial(dict(c=brief), sample=dict(fault=fault, outcome='converged under stress', method=c['method'], buses=len(net['buses'])))
        return
    # ---- failure => reported -------------------------------------------------------------------------------------
    if raised is None:
        if ss.exit_code == 0:
            ctx.fail('exit_code_zero_after_failure', dict(case=brief, after='pflow'), sig=dict(sig, routine='pflow'))
            return
        if ss.PFlow.converged:
            ctx.fail('flags_disagree_with_return', dict(case=brief, converged=True, returned=False), sig=sig)
            return
        follow_up(ctx, ss, c['follow'], sig, brief)
    ctx.nontrivial(dict(c=brief), sample=dict(fault=fault, outcome=path, method=c['method'], lib=c['lib'], buses=len(net['buses']),
                                              niter=int(ss.PFlow.niter)))


def camp_pf(ctx):
    n = dict(quick=60, thorough=700)[ctx.tier]
    drive(ctx, pf_cases(), lambda c: (ctx.evaluated(), pf_case(ctx, c)), n=n, name='pf', chunk=15,
          budget_s=dict(quick=150, thorough=1500)[ctx.tier])


# ---------------------------------------------------------------------------------------------
# (tds)
# ---------------------------------------------------------------------------------------------

TDS_BASES = ['kundur/kundur_full.xlsx', 'ieee14/ieee14_full.xlsx', '5bus/pjm5bus.xlsx', 'kundur/kundur_aw.xlsx',
             'wecc/wecc_full.xlsx', 'ieee39/ieee39_full.xlsx']


@st.composite
def tds_cases(draw, quick):
    base = draw(st.sampled_from(TDS_BASES[:4] if quick else TDS_BASES))
    tf = draw(st.sampled_from([0.6, 1.0, 2.0]))
    stress = draw(st.sampled_from(['long_fault', 'long_fault', 'trip_many', 'alter_absurd', 'cfg_only', 'own', 'bad_init', 'split_then_fault']))
    ev = []
    if stress == 'long_fault':
        t = float(round(draw(st.floats(0.05, 0.3)), 3))
        ev.append(dict(kind='fault', t=t, dur=draw(st.sampled_from([0.3, 0.6, 1.5])), sel=draw(st.integers(0, 60)), u=1, xf=draw(st.sampled_from([1e-4, 1e-2]))))
    elif stress == 'trip_many':
        for _ in range(draw(st.integers(2, 6))):
            ev.append(dict(kind='toggle_line', t=float(round(draw(st.floats(0.05, 0.4)), 3)), sel=draw(st.integers(0, 60)), u=1))
    elif stress == 'split_then_fault':
        # a few lines opened (may split the network), then a long fault: loss of synchronism inside the largest island
        for _ in range(draw(st.integers(1, 3))):
            ev.append(dict(kind='toggle_line', t=float(round(draw(st.floats(0.05, 0.2)), 3)), sel=draw(st.integers(0, 60)), u=1))
        ev.append(dict(kind='fault', t=float(round(draw(st.floats(0.3, 0.5)), 3)), dur=draw(st.sampled_from([0.4, 0.6])), sel=draw(st.integers(0, 60)), u=1,
                       xf=1e-4))
    elif stress == 'alter_absurd':
        ev.append(dict(kind='alter', t=float(round(draw(st.floats(0.05, 0.3)), 3)), sel=draw(st.integers(0, 60)), u=1,
                       target=draw(st.sampled_from(['pq_p0', 'line_x'])), method='*', amount=draw(st.sampled_from([50.0, 1e3, -20.0, 1e-6]))))
    cfg = dict(method=draw(st.sampled_from(['trapezoid', 'trapezoid', 'backeuler'])),
               fixt=draw(st.sampled_from([1, 1, 0])), shrinkt=draw(st.sampled_from([1, 0])),
               tstep=draw(st.sampled_from([1 / 30, 1 / 30, 0.1, 0.5])), max_iter=draw(st.sampled_from([15, 15, 3, 1])),
               tol=draw(st.sampled_from([1e-4, 1e-4, 1e-12])), criteria=draw(st.sampled_from([1, 1, 0])),
               sparselib=draw(st.sampled_from(['klu', 'klu', 'umfpack'])), again=draw(st.booleans()))
    bad = None
    if stress == 'bad_init':
        bad = dict(which=draw(st.integers(0, 5)), dev=draw(st.integers(0, 9)))
    return dict(base=base, tf=tf, stress=stress, events=ev, cfg=cfg, bad=bad)


def rc_tds(c):
    cfg = c['cfg']
    return {'PFlow': dict(report=0, sparselib=cfg['sparselib']),
            'TDS': dict(no_tqdm=1, tf=c['tf'], tstep=cfg['tstep'], fixt=cfg['fixt'], method=cfg['method'], max_iter=cfg['max_iter'],
                        tol=cfg['tol'], shrinkt=cfg['shrinkt'], sparselib=cfg['sparselib'], criteria=cfg['criteria']),
            'EIG': dict(plot=0)}


def materialise(ss, c):
    evs = []
    for e in c['events']:
        e = dict(e)
        e.setdefault('cls', 'x')
        evs.append(e)
    buses = list(ss.Bus.idx.v)
    rest = []
    for k, e in enumerate(evs):
        if e['kind'] == 'fault':
            ss.add('Fault', dict(idx='XF%d' % k, bus=buses[e['sel'] % len(buses)], tf=e['t'], tc=float(round(e['t'] + e['dur'], 4)), xf=e['xf'], rf=0.0, u=1))
        else:
            rest.append(e)
    c06.materialise(ss, dict(events=rest))


BAD_INIT = [('TGOV1', 'VMAX', 0.01), ('TGOV1N', 'VMAX', 0.01), ('IEEEG1', 'PMAX', 0.01), ('ESST3A', 'VRMAX', 0.01), ('TGOV1', 'VMIN', 50.0),
            ('IEEEG1', 'PMIN', 50.0)]


class StepLog:
    """Wrap TDS.itm_step of one system: what every attempt returned and whether its last increment passed the test."""

    def __init__(self, ss):
        self.ss = ss
        self.steps = []
        tds = ss.TDS
        orig = tds.itm_step
        log = self

        def itm_step():
            ret = orig()
            inc = getattr(tds, 'inc', None)
            last = None
            if inc is not None:
                a = np.abs(np.asarray(inc, dtype=float)).ravel()
                last = float(np.max(a)) if a.size and np.all(np.isfinite(a)) else float('nan')
            log.steps.append(dict(t=float(ss.dae.t), h=float(tds.h), ret=bool(ret), last_inc=last, chatter=bool(getattr(tds, 'chatter', False)),
                                  niter=int(tds.niter), busted=bool(tds.busted), finite=finite(ss.dae.x) and finite(ss.dae.y)))
            return ret
        tds.itm_step = itm_step


def tds_case(ctx, c):
    path = os.path.join(build.cases_root(), c['base'])
    cfg = c['cfg']
    brief = dict(base=c['base'], tf=c['tf'], stress=c['stress'], cfg=cfg, events=c['events'])
    sig = dict(stress=c['stress'], method=cfg['method'])
    ss = build.load_case(path, rc=rc_tds(c), setup=False)
    if c['stress'] != 'own':
        # remove the stock disturbances so that the injected schedule is the only one
        for m in ('Toggle', 'Fault', 'Alter'):
            mdl = getattr(ss, m)
            if mdl.n:
                for i in list(mdl.idx.v):
                    mdl.u.v[mdl.idx2uid(i)] = 0
    materialise(ss, c)
    if c.get('bad'):
        # inconsistent dynamic data: a limit far below the operating point, so the initial point violates the equations
        present = [(m, p, v) for m, p, v in BAD_INIT if getattr(ss, m).n > 0]
        if present:
            m, p, v = present[c['bad']['which'] % len(present)]
            mdl = getattr(ss, m)
            getattr(mdl, p).v[c['bad']['dev'] % mdl.n] = v
            brief['bad_init'] = '%s.%s[%d]=%g' % (m, p, c['bad']['dev'] % mdl.n, v)
    if not ss.setup():
        ctx.count('skip:setup_failed')
        return
    if not ss.PFlow.run():
        ctx.count('skip:pflow_failed')
        return
    mon = sim.Monitor(ss, keep_vectors=False).attach()
    steps = StepLog(ss)
    raised = None
    try:
        ret = ss.TDS.run()
    except Exception as e:
        ret, raised = None, '%s: %s' % (type(e).__name__, str(e)[:120])
    tds, dae = ss.TDS, ss.dae
    ctx.count('stress:' + c['stress'])
    if raised:
        ctx.count('tds:raised:' + raised.split(':')[0])
        ctx.nontrivial(dict(c=brief), sample=dict(base=c['base'], stress=c['stress'], outcome='raised ' + raised))
        return
    t_end = float(dae.t)
    state_ok = finite(dae.x) and finite(dae.y)
    ts_ok = True
    try:
        ts_ok = finite(dae.ts.t) and finite(dae.ts.x) and finite(dae.ts.y)
    except Exception:
        pass
    reached = (t_end == float(tds.config.tf))
    init_failed = (tds.test_ok is False)
    outcome = ('true' if ret else 'false') + (':busted' if tds.busted else '') + ('' if reached else ':short') + ('' if state_ok else ':nan') + \
        (':init_failed' if init_failed else '')
    ctx.count('tds:' + outcome)
    # ---- stored rows come from attempts that passed -------------------------------------------------------------
    k = 0
    attempts = steps.steps
    nchat = 0
    si = 0
    # pair stores with attempts through the monitor's call-order log ('a' = attempt start, 's' = store)
    ai = -1
    for kind, rec in mon.log:
        if kind == 'a':
            ai += 1
            continue
        if ai < 0 or ai >= len(attempts):
            continue
        a = attempts[ai]
        if not a['ret']:
            ctx.fail('row_stored_after_rejected_step', dict(case=brief, t=rec['t'], attempt=a), sig=sig)
            return
        if a['chatter']:
            nchat += 1
        elif a['last_inc'] is not None and not (a['last_inc'] <= float(tds.config.tol)):
            ctx.fail('step_accepted_without_passing_the_tolerance_test', dict(case=brief, t=rec['t'], last_increment=a['last_inc'], tol=float(tds.config.tol),
                                                                               niter=a['niter']), sig=sig)
            return
        if not a['finite']:
            ctx.fail('row_stored_with_nan', dict(case=brief, t=rec['t']), sig=sig)
            return
    if nchat:
        ctx.count('tds:chatter_accepted_steps', nchat)
    if not ts_ok:
        ctx.fail('nan_in_stored_series', dict(case=brief), sig=sig)
        return
    # the documented stability criterion, recomputed from the stored series: spread of the rotor angles of all
    # synchronous machines above the configured limit at an accepted step
    tripped = None
    if cfg['criteria'] and ss.SynGen.n >= 2 and ts_ok:
        try:
            # the machines the criterion is about: the in-service synchronous machines of the largest island of the network
            # as it is at the end of the run (own union-find over the in-service lines), judged on the stored steps after the
            # last line switching (before it the watched set was a superset, whose spread is not smaller)
            pos = {b: k for k, b in enumerate(ss.Bus.idx.v)}
            par = list(range(ss.Bus.n))

            def find(a):
                while par[a] != a:
                    par[a] = par[par[a]]
                    a = par[a]
                return a
            for b1, b2, u in zip(ss.Line.bus1.v, ss.Line.bus2.v, ss.Line.u.v):
                if u:
                    par[find(pos[b1])] = find(pos[b2])
            comp = {}
            for k in range(ss.Bus.n):
                comp.setdefault(find(k), []).append(k)
            sizes = sorted((len(v) for v in comp.values()), reverse=True)
            unique_largest = len(sizes) == 1 or sizes[0] > sizes[1]
            largest = set(max(comp.values(), key=len))
            da = []
            for mdl in ss.SynGen.models.values():
                for k in range(mdl.n):
                    if mdl.u.v[k] and pos[mdl.bus.v[k]] in largest:
                        da.append(int(mdl.delta.a[k]))
            da = np.array(da, dtype=int)
            t_sw = max([e['t'] + (e.get('dur') or 0.0) for e in c['events'] if e['kind'] in ('toggle_line',)] + [0.0])
            if c['stress'] == 'own':
                t_sw = max([t_sw] + [float(t) for t in ss.Toggle.t.v])
            xs = np.asarray(dae.ts.x)
            tt = np.asarray(dae.ts.t)
            if xs.ndim == 2 and xs.shape[0] and len(da) >= 2 and unique_largest:
                keep = tt > t_sw + 2e-4
                spread = (np.max(xs[:, da], axis=1) - np.min(xs[:, da], axis=1))[keep]
                lim = np.deg2rad(float(tds.config.ddelta_limit))
                tripped = bool(np.any(spread[:-1] > lim * 1.02)) if len(spread) > 1 else False
                ctx.count('tds:criterion_%s' % ('tripped' if tripped else 'not_tripped'))
                if len(comp) > 1:
                    ctx.count('tds:criterion_judged_on_split_network')
        except Exception as e:
            ctx.note('criterion oracle failed: %s' % repr(e)[:120])
            tripped = None
    if ret and tripped:
        ctx.fail('success_although_stability_criterion_tripped', dict(case=brief, limit_deg=float(tds.config.ddelta_limit)), sig=sig)
        return
    if ret:
        if tds.busted or not reached or not state_ok:
            ctx.fail('success_without_valid_result', dict(case=brief, busted=bool(tds.busted), t_end=t_end, tf=float(tds.config.tf), finite=state_ok), sig=sig)
            return
        if init_failed:
            ctx.fail('success_after_failed_initialisation', dict(case=brief, exit_code=int(ss.exit_code)), sig=dict(sig, clause2='init'))
            return
        if ss.exit_code != 0:
            ctx.fail('flags_disagree_with_return', dict(case=brief, returned=True, exit_code=int(ss.exit_code)), sig=sig)
            return
    else:
        if ss.exit_code == 0:
            ctx.fail('exit_code_zero_after_failure', dict(case=brief, after='tds', outcome=outcome), sig=dict(sig, routine='tds'))
            return
        if cfg['again']:
            code0 = int(ss.exit_code)
            try:
                ret2 = ss.TDS.run()
            except Exception:
                ret2 = False
            if ret2:
                ctx.fail('repeated_run_after_failure_reports_success', dict(case=brief, outcome=outcome), sig=sig)
                return
            if ss.exit_code == 0 or ss.exit_code < code0:
                ctx.fail('exit_code_zero_after_failure', dict(case=brief, after='tds again', before=code0, now=int(ss.exit_code)), sig=dict(sig, routine='tds'))
                return
            ctx.count('tds:again_refused')
    took_failure_path = (not ret) or any(not a['ret'] for a in attempts)
    if took_failure_path or c['stress'] != 'own':
        ctx.nontrivial(dict(c=brief), sample=dict(base=c['base'], stress=c['stress'], outcome=outcome, t_end=round(t_end, 4),
                                                  rejected_attempts=sum(1 for a in attempts if not a['ret']), err=str(tds.err_msg)[:60]))


def camp_tds(ctx):
    quick = ctx.tier == 'quick'
    n = dict(quick=24, thorough=300)[ctx.tier]
    if ctx.shard < 2:
        # anchor: the network is split so that one machine is left in a small island, then a long solid fault inside the
        # largest island (stability criterion on); the lines to open are looked up by their terminal buses
        import andes
        ss0 = build.load_case(os.path.join(build.cases_root(), 'kundur/kundur_full.xlsx'), setup=False)
        lines = list(ss0.Line.idx.v)
        cut = [k for k, (a, b) in enumerate(zip(ss0.Line.bus1.v, ss0.Line.bus2.v)) if {a, b} == {9, 10}]
        buses = list(ss0.Bus.idx.v)
        ts, t_f, tf_, xf_ = (1.0, 2.0, 4.0, 1e-4) if ctx.shard == 0 else (0.1, 0.3, 2.5, 1e-2)
        ev = [dict(kind='toggle_line', t=ts, sel=k, u=1) for k in cut]
        ev.append(dict(kind='fault', t=t_f, dur=0.5, sel=buses.index(5), u=1, xf=xf_))
        c = dict(base='kundur/kundur_full.xlsx', tf=tf_, stress='split_then_fault', events=ev, bad=None,
                 cfg=dict(method='trapezoid', fixt=1, shrinkt=1, tstep=1 / 30, max_iter=15, tol=1e-4, criteria=1, sparselib='klu', again=False))
        ctx.current_case = c
        ctx.evaluated()
        ctx.count('tds:anchor_split_then_fault')
        tds_case(ctx, c)
    drive(ctx, tds_cases(quick), lambda c: (ctx.evaluated(), tds_case(ctx, c)), n=n, name='tds', chunk=6,
          budget_s=dict(quick=170, thorough=2400)[ctx.tier])


# ---------------------------------------------------------------------------------------------
# (seq) routine sequences
# ---------------------------------------------------------------------------------------------

class SeqModel:
    """The system under a sequence of routine calls plus the model 'did the last power flow or a routine after it fail'."""

    def __init__(self, ctx):
        self.ctx = ctx
        self.ss = None
        self.hist = []                    # replayable: [op, args...]
        self.outcomes = []                # parallel to hist
        self.failed_since_pf = False
        self.pf_ok = None
        self.tds_started = False
        self.tds_failed = False
        self.raised = False
        self.fail_paths = set()

    def brief(self):
        return dict(history=[list(h) for h in self.hist], outcomes=[repr(o) for o in self.outcomes])

    def fail(self, clause, detail, sig):
        self.ctx.fail(clause, dict(detail, case=self.brief()), sig=sig)

    def apply(self, op):
        getattr(self, 'op_' + op[0])(*op[1:])
        self.invariant()

    def op_start(self, base, fault, sel, max_iter, pq2z=1):
        rc = {'PFlow': dict(report=0), 'TDS': dict(no_tqdm=1, tf=0.2, max_iter=max_iter, criteria=1), 'EIG': dict(plot=0)}
        if not pq2z:
            rc['PQ'] = dict(pq2z=0)          # loads stay constant power outside the voltage band: overload is infeasible
        ss = build.load_case(os.path.join(build.cases_root(), base), rc=rc, setup=False)
        for m in ('Toggle', 'Fault', 'Alter'):
            mdl = getattr(ss, m)
            for i in list(mdl.idx.v):
                mdl.u.v[mdl.idx2uid(i)] = 0
        if fault:
            buses = list(ss.Bus.idx.v)
            ss.add('Fault', dict(idx='XF', bus=buses[sel % len(buses)], tf=0.1, tc=0.1 + fault[0], xf=fault[1], rf=0.0, u=1))
        if not ss.setup():
            raise RuntimeError('setup failed')
        self.ss = ss
        self.hist.append(['start', base, fault, sel, max_iter, pq2z])
        self.outcomes.append(None)

    def op_scale(self, k):
        pq = self.ss.PQ
        pq.p0.v[:] = pq.p0.v * k
        pq.q0.v[:] = pq.q0.v * k
        self.hist.append(['scale', k])
        self.outcomes.append(None)

    def op_pf_iter(self, n):
        self.ss.PFlow.config.max_iter = n
        self.hist.append(['pf_iter', n])
        self.outcomes.append(None)

    def op_tds_cfg(self, max_iter, shrinkt):
        self.ss.TDS.config.max_iter = max_iter
        self.ss.TDS.config.shrinkt = shrinkt
        self.hist.append(['tds_cfg', max_iter, shrinkt])
        self.outcomes.append(None)

    def op_pflow(self):
        ss = self.ss
        self.hist.append(['pflow'])
        try:
            ret = bool(ss.PFlow.run())
        except Exception as e:
            self.outcomes.append('raised ' + type(e).__name__)
            self.pf_ok, self.failed_since_pf, self.raised = False, True, True
            return
        self.outcomes.append(ret)
        self.pf_ok = ret
        self.failed_since_pf = not ret
        self.raised = False
        self.tds_failed = False
        if not ret:
            self.fail_paths.add('pflow')
        if ret and not (finite(ss.dae.x) and finite(ss.dae.y)):
            self.fail('success_with_nan_state', dict(routine='pflow'), sig=dict(seq=True))
        if ret:
            # a reported success: the residual of the reported state, re-evaluated through the routine's own update
            try:
                ss.PFlow.fg_update()
                res = max(float(np.max(np.abs(ss.dae.g))) if ss.dae.m else 0.0, float(np.max(np.abs(ss.dae.f))) if ss.dae.n else 0.0)
            except Exception:
                res = 0.0
            if not np.isfinite(res) or res > 1e-3:
                self.fail('success_with_nonfinite_or_large_residual', dict(routine='pflow', residual=res), sig=dict(seq=True))
        if bool(ss.PFlow.converged) != ret:
            self.fail('flags_disagree_with_return', dict(converged=bool(ss.PFlow.converged), returned=ret), sig=dict(seq=True))

    def _same_state(self, x0, y0, t0):
        ss = self.ss
        return (len(ss.dae.x) == len(x0) and len(ss.dae.y) == len(y0) and np.array_equal(ss.dae.x, x0, equal_nan=True)
                and np.array_equal(ss.dae.y, y0, equal_nan=True) and float(ss.dae.t) == t0)

    def op_tds(self, dt):
        ss = self.ss
        tf_new = round(max(float(ss.dae.t), 0.0) + dt, 4)
        ss.TDS.config.tf = tf_new
        x0, y0, t0 = ss.dae.x.copy(), ss.dae.y.copy(), float(ss.dae.t)
        must_refuse = (self.pf_ok is not True)
        self.hist.append(['tds', dt])
        try:
            ret = bool(ss.TDS.run())
        except Exception as e:
            self.outcomes.append('raised ' + type(e).__name__)
            if must_refuse and not self.raised:
                self.fail('dependent_routine_started_on_invalid_state', dict(routine='tds', raised=type(e).__name__), sig=dict(seq=True, routine='tds'))
            self.failed_since_pf, self.raised, self.tds_started = True, True, True
            return
        self.outcomes.append(ret)
        if must_refuse:
            if ret:
                self.fail('dependent_routine_ran_after_failed_power_flow', dict(routine='tds'), sig=dict(seq=True, routine='tds'))
            if not self._same_state(x0, y0, t0):
                self.fail('refusing_routine_changed_the_state', dict(routine='tds'), sig=dict(seq=True, routine='tds'))
            self.failed_since_pf = True
            self.fail_paths.add('tds_refused')
            return
        self.tds_started = True
        if ret:
            if ss.TDS.busted or float(ss.dae.t) != float(ss.TDS.config.tf) or not (finite(ss.dae.x) and finite(ss.dae.y)):
                self.fail('success_without_valid_result', dict(busted=bool(ss.TDS.busted), t_end=float(ss.dae.t)), sig=dict(seq=True))
            if self.tds_failed:
                self.fail('repeated_run_after_failure_reports_success', dict(), sig=dict(seq=True))
            if ss.TDS.test_ok is False:
                self.fail('success_after_failed_initialisation', dict(exit_code=int(ss.exit_code)), sig=dict(seq=True, clause2='init'))
        else:
            self.failed_since_pf = True
            self.tds_failed = True
            self.fail_paths.add('tds')

    def op_eig(self):
        ss = self.ss
        must_refuse = (self.pf_ok is not True)
        x0, y0, t0 = ss.dae.x.copy(), ss.dae.y.copy(), float(ss.dae.t)
        self.hist.append(['eig'])
        try:
            ret = bool(ss.EIG.run())
        except Exception as e:
            self.outcomes.append('raised ' + type(e).__name__)
            if must_refuse and not self.raised:
                self.fail('dependent_routine_started_on_invalid_state', dict(routine='eig', raised=type(e).__name__), sig=dict(seq=True, routine='eig'))
            self.failed_since_pf, self.raised = True, True
            if not must_refuse:
                self.tds_started = True
            return
        self.outcomes.append(ret)
        if must_refuse:
            if ret:
                self.fail('dependent_routine_ran_after_failed_power_flow', dict(routine='eig'), sig=dict(seq=True, routine='eig'))
            if not self._same_state(x0, y0, t0):
                self.fail('refusing_routine_changed_the_state', dict(routine='eig'), sig=dict(seq=True, routine='eig'))
            self.failed_since_pf = True
            self.fail_paths.add('eig_refused')
            return
        self.tds_started = True
        if ret:
            if not np.all(np.isfinite(np.asarray(ss.EIG.mu))):
                self.fail('success_with_nan_state', dict(routine='eig'), sig=dict(seq=True, routine='eig'))
            if self.tds_failed:
                self.ctx.count('seq:eig_true_after_failed_tds')
            if ss.TDS.test_ok is False:
                self.fail('success_after_failed_initialisation', dict(routine='eig', exit_code=int(ss.exit_code)), sig=dict(seq=True, clause2='init', routine='eig'))
        else:
            self.failed_since_pf = True
            self.fail_paths.add('eig')

    def invariant(self):
        if self.ss is None or not self.hist or self.hist[-1][0] in ('start', 'scale', 'pf_iter', 'tds_cfg'):
            return
        if self.raised:
            return            # an exception already reported the failure to the caller
        if self.failed_since_pf and self.ss.exit_code == 0:
            self.fail('exit_code_zero_after_failure', dict(), sig=dict(seq=True, routine=self.hist[-1][0]))
        if not self.failed_since_pf and self.ss.exit_code != 0:
            self.ctx.count('seq:nonzero_exit_without_observed_failure')
            self.ctx.note('nonzero exit without observed failure: %s' % json.dumps(self.brief())[:600])

    def finish(self):
        ctx = self.ctx
        if self.ss is None:
            return
        ctx.count('seq:len=%d' % min(len(self.hist), 8))
        for p in self.fail_paths:
            ctx.count('seq:path:' + p)
        if self.fail_paths:
            ctx.nontrivial(dict(h=self.hist), sample=dict(history=[' '.join(map(str, h)) + ' -> ' + repr(o) for h, o in zip(self.hist, self.outcomes)][:10],
                                                         exit_code=int(self.ss.exit_code)))


def make_machine(ctx):
    class Seq(RuleBasedStateMachine):
        last_history = None

        def __init__(self):
            super().__init__()
            self.m = SeqModel(ctx)
            type(self).last_history = self.m.hist

        @initialize(base=st.sampled_from(['kundur/kundur_full.xlsx', 'ieee14/ieee14_full.xlsx', '5bus/pjm5bus.xlsx']),
                    fault=st.sampled_from([None, None, [1.5, 1e-4], [0.05, 1e-2]]),
                    sel=st.integers(0, 30), max_iter=st.sampled_from([15, 15, 2]), pq2z=st.sampled_from([1, 0, 0]))
        def start(self, base, fault, sel, max_iter, pq2z):
            self.m.op_start(base, fault, sel, max_iter, pq2z)

        @precondition(lambda self: self.m.ss is not None and not self.m.tds_started)
        @rule(k=st.sampled_from([40.0, 0.5, 0.025, 100.0]))
        def scale(self, k):
            self.m.op_scale(k)

        @precondition(lambda self: self.m.ss is not None and not self.m.tds_started)
        @rule(n=st.sampled_from([0, 1, 25]))
        def pf_iter(self, n):
            self.m.op_pf_iter(n)

        @precondition(lambda self: self.m.ss is not None)
        @rule(max_iter=st.sampled_from([0, 1, 15]), shrinkt=st.sampled_from([0, 1]))
        def tds_cfg(self, max_iter, shrinkt):
            self.m.op_tds_cfg(max_iter, shrinkt)

        @precondition(lambda self: self.m.ss is not None and not self.m.tds_started)
        @rule()
        def pflow(self):
            self.m.op_pflow()

        @precondition(lambda self: self.m.ss is not None)
        @rule(dt=st.sampled_from([0.1, 0.3, 1.0]))
        def tds(self, dt):
            self.m.op_tds(dt)

        @precondition(lambda self: self.m.ss is not None)
        @rule()
        def eig(self):
            self.m.op_eig()

        @invariant()
        def exit_code_reflects_failures(self):
            type(self).last_history = self.m.hist
            self.m.invariant()

        def teardown(self):
            self.m.finish()
    return Seq


ANCHOR_HISTORIES = [
    # a converged power flow, then the case made infeasible (constant-power loads x40), then the routines again
    [['start', 'kundur/kundur_full.xlsx', None, 0, 15, 0], ['pflow'], ['scale', 40.0], ['pflow'], ['tds', 0.1], ['eig']],
    [['start', 'ieee14/ieee14_full.xlsx', None, 0, 15, 0], ['pflow'], ['scale', 100.0], ['pflow'], ['eig'], ['tds', 0.1]],
    # iteration limit hit on a re-run after a success
    [['start', '5bus/pjm5bus.xlsx', None, 0, 15, 1], ['pflow'], ['scale', 0.5], ['pf_iter', 0], ['pflow'], ['tds', 0.1]],
]


def camp_seq(ctx):
    if ctx.shard == 0:
        for hist in ANCHOR_HISTORIES:
            m = SeqModel(ctx)
            ctx.current_case = dict(history=hist)
            ctx.evaluated()
            ctx.count('seq:anchor')
            for op in hist:
                m.apply(op)
            m.finish()
    M = make_machine(ctx)
    n = dict(quick=16, thorough=200)[ctx.tier]
    done = drive_machine(ctx, M, n=n, steps=12, name='seq', budget_s=dict(quick=170, thorough=2000)[ctx.tier], shrink=ctx.tier != 'quick')
    ctx.evaluated(done)
    if ctx.violations and ctx.violations[-1].get('case') is None:
        ctx.violations[-1]['case'] = dict(history=[list(h) for h in (M.last_history or [])])


# ---------------------------------------------------------------------------------------------
# (cli) exit codes of andes.run
# ---------------------------------------------------------------------------------------------

KINDS = ['good', 'good', 'overload', 'unstable', 'missing', 'empty', 'truncated', 'garbage', 'bitflip_json', 'wrong_ext']


@st.composite
def cli_cases(draw):
    n = draw(st.sampled_from([1, 1, 2, 2, 3]))
    files = []
    for _ in range(n):
        files.append(dict(kind=draw(st.sampled_from(KINDS)), fmt=draw(st.sampled_from(['xlsx', 'json', 'raw', 'm'])),
                          cut=draw(st.floats(0.05, 0.95)), seed=draw(st.integers(0, 10 ** 6))))
    return dict(files=files, routine=draw(st.sampled_from(['pflow', 'pflow', 'tds', 'eig'])), pool=draw(st.booleans()),
                ncpu=draw(st.sampled_from([1, 2, 4])), entry=draw(st.sampled_from(['api', 'api', 'api', 'api', 'module', 'script'])))


_TEMPLATES = {}


def _template(fmt, overload=False, unstable=False):
    """A small good case in the requested format (dumped once per worker)."""
    key = (fmt, overload, unstable)
    if key in _TEMPLATES:
        return _TEMPLATES[key]
    d = sandbox.scratch_dir('c17tpl')
    root = build.cases_root()
    if fmt in ('xlsx', 'json'):
        ss = build.load_case(os.path.join(root, 'kundur/kundur_full.xlsx'), setup=False)
        if overload:
            for k in range(ss.PQ.n):
                ss.PQ.p0.v[k] *= 40
        if unstable:
            ss.add('Fault', dict(idx='XF', bus=ss.Bus.idx.v[6], tf=0.1, tc=1.6, xf=1e-4, rf=0.0, u=1))
        ss.setup()
        import andes
        p = os.path.join(d, 'tpl_%s_%d%d.%s' % (fmt, overload, unstable, fmt))
        andes.io.dump(ss, fmt, full_path=p, overwrite=True)
    else:
        src = os.path.join(root, 'ieee14/ieee14.raw' if fmt == 'raw' else 'matpower/case14.m')
        p = os.path.join(d, 'tpl_%s_%d.%s' % (fmt, overload, 'raw' if fmt == 'raw' else 'm'))
        text = open(src).read()
        if overload:
            if fmt == 'm':
                import re
                text = text.replace('mpc.baseMVA = 100;', 'mpc.baseMVA = 2;')     # every load and generation 50x in p.u.
            else:
                # scale the constant-power loads of the load section by 40
                out, in_load = [], False
                for ln in text.splitlines():
                    if 'end of bus data' in ln.lower():
                        in_load = True
                        out.append(ln)
                        continue
                    if 'end of load data' in ln.lower():
                        in_load = False
                    if in_load and ln.strip() and not ln.lstrip().startswith(('0 ', '0/')) and 'end of' not in ln.lower():
                        f = ln.split(',')
                        if len(f) > 6:
                            f[5] = ' %.4f' % (float(f[5]) * 40)
                            f[6] = ' %.4f' % (float(f[6]) * 40)
                            ln = ','.join(f)
                    out.append(ln)
                text = '\n'.join(out) + '\n'
        open(p, 'w').write(text)
    _TEMPLATES[key] = p
    return p


_API = {}


def api_verdict(path, routine):
    """What the routines themselves return for this file (their flags are judged by the pf / tds campaigns)."""
    key = (path, routine)
    if key not in _API:
        ss = build.load_case(path, rc={'PFlow': dict(report=0), 'TDS': dict(no_tqdm=1, tf=2.0), 'EIG': dict(plot=0)})
        try:
            ok = bool(ss.PFlow.run())
            if ok and routine == 'tds':
                ok = bool(ss.TDS.run())
            elif ok and routine == 'eig':
                ok = bool(ss.EIG.run())
        except Exception:
            ok = False
        _API[key] = ok
    return _API[key]


def make_file(d, k, f, routine):
    """Returns (path relative to d, expected_good: True / False / None (= unknown, not judged))."""
    import random
    rnd = random.Random(f['seed'])
    kind, fmt = f['kind'], f['fmt']
    ext = fmt
    name = 'f%d_%s.%s' % (k, kind, ext)
    p = os.path.join(d, name)
    dyn_ok = fmt in ('xlsx', 'json')
    if kind == 'good':
        shutil.copy(_template(fmt), p)
        good = True if (routine == 'pflow' or dyn_ok) else None      # tds / eig on a static-only file: not judged
        return name, good
    if kind == 'overload':
        t = _template(fmt, overload=True)
        shutil.copy(t, p)
        return name, (False if not api_verdict(t, 'pflow') else None)
    if kind == 'unstable':
        if not dyn_ok or routine != 'tds':
            shutil.copy(_template(fmt), p)
            return name, (True if (routine == 'pflow' or dyn_ok) else None)
        t = _template(fmt, unstable=True)
        shutil.copy(t, p)
        return name, (False if not api_verdict(t, 'tds') else None)
    if kind == 'missing':
        return name, False
    if kind == 'empty':
        open(p, 'w').close()
        return name, False
    data = open(_template(fmt), 'rb').read()
    if kind == 'truncated':
        if fmt in ('raw', 'm'):
            # a cut text file may still be a complete smaller description: cut inside the first record instead
            data = data[:max(1, min(len(data), 25))]
        else:
            data = data[:max(1, int(len(data) * f['cut']))]
        open(p, 'wb').write(data)
        if fmt == 'json':
            try:
                json.loads(data.decode())
                return name, None
            except Exception:
                return name, False
        return name, False
    if kind == 'garbage':
        open(p, 'wb').write(bytes(rnd.randrange(256) for _ in range(rnd.randrange(10, 400))))
        return name, False
    if kind == 'bitflip_json':
        p = os.path.join(d, 'f%d_bitflip.json' % k)
        name = os.path.basename(p)
        data = bytearray(open(_template('json'), 'rb').read())
        # destroy the structure: overwrite a run of bytes in the first half with braces
        pos = rnd.randrange(0, max(1, len(data) // 2))
        data[pos:pos + 7] = b'}{[,:]"'
        open(p, 'wb').write(bytes(data))
        try:
            json.loads(bytes(data).decode('utf-8', 'replace'))
            return name, None
        except Exception:
            return name, False
    if kind == 'wrong_ext':
        p = os.path.join(d, 'f%d_wrong.xyz' % k)
        shutil.copy(_template(fmt), p)
        return os.path.basename(p), False
    raise AssertionError(kind)


def cli_case(ctx, c):
    import andes
    d = sandbox.scratch_dir('c17cli')
    for f in os.listdir(d):
        fp = os.path.join(d, f)
        if os.path.isfile(fp):
            os.remove(fp)
    names, goods = [], []
    for k, f in enumerate(c['files']):
        nm, good = make_file(d, k, f, c['routine'])
        names.append(nm)
        goods.append(good)
    brief = dict(files=[dict(kind=f['kind'], fmt=f['fmt']) for f in c['files']], routine=c['routine'], pool=c['pool'], ncpu=c['ncpu'], entry=c.get('entry', 'api'))
    kw = dict(input_path=d, cli=True, no_output=True, default_config=True, verbose=50, routine=c['routine'], ncpu=c['ncpu'], pool=c['pool'])
    if c['routine'] == 'tds':
        kw['tf'] = 2.0
    cwd = os.getcwd()
    os.chdir(d)
    raised = None
    try:
        code = andes.run(names if len(names) > 1 else names[0], **kw)
    except SystemExit as e:
        code, raised = e.code, None
    except Exception as e:
        code, raised = None, type(e).__name__
    finally:
        os.chdir(cwd)
        sandbox.quiet_andes()
    multi = len(set(names)) > 1
    ctx.count('cli:%s:%s' % ('multi_pool' if (multi and c['pool']) else 'multi_proc' if multi else 'single', 'raised' if raised else 'code=%s' % (0 if code == 0 else 'nz')))
    any_bad = any(g is False for g in goods)
    all_good = all(g is True for g in goods)
    sig = dict(cli=True, multi=multi, pool=bool(c['pool']) if multi else None, kinds=sorted(set(f['kind'] for f, g in zip(c['files'], goods) if g is False)))
    if raised is None and not isinstance(code, (int, np.integer)):
        ctx.fail('exit_code_is_not_an_integer', dict(case=brief, returned=repr(code)), sig=sig)
        return
    if any_bad and raised is None and code == 0:
        ctx.fail('cli_exit_code_zero_although_a_case_failed', dict(case=brief, expected_bad=[n for n, g in zip(names, goods) if g is False]), sig=sig)
        return
    if all_good and (raised is not None or code != 0):
        ctx.fail('cli_reports_failure_for_good_cases', dict(case=brief, code=code, raised=raised), sig=dict(cli=True, good=True, routine=c['routine']))
        return
    if c.get('entry', 'api') != 'api' and (any_bad or all_good):
        # the real process: `python -m andes run ...` and the console-script entry `sys.exit(andes.cli.main())`
        import subprocess
        import sys
        argv = ['run'] + names + ['-p', d, '-n', '--no-pbar', '--no-preamble', '-r', c['routine'], '--ncpu', str(c['ncpu'])]
        if c['routine'] == 'tds':
            argv += ['--tf', '2.0']
        if c['pool']:
            argv += ['--pool']
        head = [sys.executable, '-m', 'andes'] if c['entry'] == 'module' else \
            [sys.executable, '-c', 'import sys; from andes.cli import main; sys.exit(main())']
        env = dict(os.environ)
        if os.environ.get('VERIF_REPO'):
            env['PYTHONPATH'] = os.environ['VERIF_REPO'] + os.pathsep + env.get('PYTHONPATH', '')
        r = subprocess.run(head + ['-v', '40'] + argv, cwd=d, env=env, stdout=subprocess.DEVNULL, stderr=subprocess.DEVNULL, timeout=900)
        ctx.count('cli:process:%s:%s' % (c['entry'], 'rc=0' if r.returncode == 0 else 'rc=nz'))
        if any_bad and r.returncode == 0:
            ctx.fail('process_exit_status_zero_although_a_case_failed', dict(case=brief, entry=c['entry'], argv=argv[:8]), sig=dict(cli=True, entry=c['entry']))
            return
        if all_good and r.returncode != 0:
            ctx.fail('cli_reports_failure_for_good_cases', dict(case=brief, entry=c['entry'], rc=r.returncode), sig=dict(cli=True, good=True, entry=c['entry']))
            return
    if any_bad:
        ctx.nontrivial(dict(c=brief), sample=dict(files=['%s.%s' % (f['kind'], f['fmt']) for f in c['files']], routine=c['routine'],
                                                  backend='pool' if c['pool'] else 'process', entry=c.get('entry', 'api'),
                                                  outcome=raised or ('exit code %s' % code)))


def camp_cli(ctx):
    n = dict(quick=36, thorough=400)[ctx.tier]
    # anchors: every kind of bad input alone (a failing member can hide behind another one in multi-case runs)
    anchors = [(k, f) for k in KINDS[2:] for f in (('xlsx', 'raw') if k not in ('bitflip_json',) else ('json',))]
    for j, (kind, fmt) in enumerate(sorted(set(anchors))):
        if j % ctx.nshards != ctx.shard:
            continue
        c = dict(files=[dict(kind=kind, fmt=fmt, cut=0.4, seed=ctx.seed + j)], routine='tds' if kind == 'unstable' else 'pflow', pool=False, ncpu=1,
                 entry='api')
        ctx.current_case = c
        ctx.evaluated()
        ctx.count('cli:anchor:' + kind)
        cli_case(ctx, c)
    drive(ctx, cli_cases(), lambda c: (ctx.evaluated(), cli_case(ctx, c)), n=n, name='cli', chunk=6,
          budget_s=dict(quick=170, thorough=2000)[ctx.tier])


CAMPAIGNS = {
    'pf': dict(fn=camp_pf, shards=dict(quick=5, thorough=8)),
    'tds': dict(fn=camp_tds, shards=dict(quick=6, thorough=10)),
    'seq': dict(fn=camp_seq, shards=dict(quick=4, thorough=6)),
    'cli': dict(fn=camp_cli, shards=dict(quick=2, thorough=4)),
}


def replay(ctx, rec):
    c = rec['case']
    camp = rec.get('campaign')
    if camp == 'pf':
        pf_case(ctx, c)
    elif camp == 'tds':
        tds_case(ctx, c)
    elif camp == 'cli':
        cli_case(ctx, c)
    else:
        m = SeqModel(ctx)
        for op in c['history']:
            m.apply(op)
        m.finish()
