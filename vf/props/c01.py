"""C01 - converged power flow satisfies the AC network equations of the input data."""
import copy
import math

import numpy as np
from hypothesis import strategies as st

from .. import build
from ..gen import net as gnet
from ..oracle import pf as opf
from ..runner import drive

RULE = ("Generated networks (2..N buses; spanning tree + extra/parallel branches; per-branch MVA/kV bases, "
        "asymmetric shunts, taps, phase shifters, offline devices, several loads per bus, int/str/mixed idx, "
        "drawn insertion order) x PFlow configuration (method, sparselib, linsolve, ipadd, tol, flat start). "
        "Oracle: independent pi-model nodal balance from the input data, set-point clauses, an independent "
        "dense Newton for the convergence clause, and a metamorphic twin (canonical order / renamed idx / "
        "re-based devices and system). Non-trivial = ANDES converged, no load switched to impedance, and "
        ">= 2 of {asym_shunt, tap, phase_shifter, branch_base, offnominal_vn1, parallel, offline_*, multi_load_bus}; "
        "distinct by SHA-1 of the network+config JSON.")
ASSUMPTIONS = [
    "Transformer convention: complex ratio tap*exp(j*phi) on the from side, from-side shunt on the line side of "
    "the ideal transformer (MATPOWER convention, which ANDES documents it follows).",
    "Line adds 1e-8 to r and x (system base); its first-order effect is added to the bound per bus.",
    "At most one online voltage-controlled generator per bus (every stock case respects this).",
    "Convergence is only demanded when an independent Newton solves the same data from a flat start with all |V| in [0.9,1.1].",
]

METHODS = ['NR', 'NR', 'NR', 'NR', 'dishonest', 'dishonest', 'NK']
LIBS = ['klu', 'klu', 'umfpack', 'spsolve']


@st.composite
def configs(draw):
    return dict(method=draw(st.sampled_from(METHODS)), sparselib=draw(st.sampled_from(LIBS)),
                linsolve=draw(st.sampled_from([0, 0, 1])), ipadd=draw(st.sampled_from([1, 1, 0])),
                tol=draw(st.sampled_from([1e-6, 1e-6, 1e-10])), flat=draw(st.sampled_from([0, 1])))


def rc_of(cfg):
    return {'PFlow': dict(method=cfg['method'], sparselib=cfg['sparselib'], linsolve=cfg['linsolve'],
                          tol=cfg['tol'], report=0),
            'System': dict(ipadd=cfg['ipadd']),
            'Bus': dict(flat_start=cfg['flat'])}


def solve(net, cfg, permute=True):
    ss = build.build_static(net, rc_of(cfg), permute=permute)
    assert ss.PFlow.config.method == cfg['method'] and ss.PFlow.solver.sparselib == cfg['sparselib']
    raised = None
    try:
        ok = ss.PFlow.run()
    except Exception as e:        # a raised exception is a (loud) report of failure, not a convergence claim
        ok = False
        raised = type(e).__name__
    res = dict(ok=bool(ok), exit_code=ss.exit_code, raised=raised)
    V = {}
    for i, idx in enumerate(ss.Bus.idx.v):
        V[opf._key(idx)] = (float(ss.Bus.v.v[i]), float(ss.Bus.a.v[i]))
    res['V'] = V
    gen = {}
    for i, idx in enumerate(ss.PV.idx.v):
        gen[('pvs', opf._key(idx))] = (float(ss.PV.p.v[i]), float(ss.PV.q.v[i]))
    for i, idx in enumerate(ss.Slack.idx.v):
        gen[('slacks', opf._key(idx))] = (float(ss.Slack.p.v[i]), float(ss.Slack.q.v[i]))
    res['gen'] = gen
    res['islanded'] = [ss.Bus.idx.v[k] for k in ss.Bus.islanded_buses]
    return res, ss


def vvec(net, res):
    return np.array([res['V'][opf._key(b['idx'])][0] * np.exp(1j * res['V'][opf._key(b['idx'])][1])
                     for b in net['buses']])


def check_solution(ctx, net, cfg, res, label=''):
    """Balance + set-point clauses on a converged ANDES result."""
    V = vvec(net, res)
    if not np.all(np.isfinite(V)):
        ctx.fail('converged_with_nan', dict(label=label), sig=dict(method=cfg['method']))
        return None
    mis, reg, modes = opf.mismatch(net, V, res['gen'])
    tol = cfg['tol']
    bound = 2 * tol + 4 * reg + 1e-12
    worst = int(np.argmax(np.abs(mis) - bound))
    if abs(mis[worst]) > bound[worst]:
        ctx.fail('power_balance', dict(label=label, bus=net['buses'][worst]['idx'], mismatch=[mis[worst].real, mis[worst].imag],
                                       bound=float(bound[worst]), method=cfg['method'], tol=tol),
                 sig=dict(method=cfg['method'], big=bool(abs(mis[worst]) > 1e-4)))
    bi = opf.bus_index(net)
    for kind in ('pvs', 'slacks'):
        for g in net[kind]:
            if not g['u']:
                continue
            k = bi[opf._key(g['bus'])]
            if abs(abs(V[k]) - g['v0']) > 1e-9 + tol:
                ctx.fail('voltage_setpoint', dict(label=label, gen=g['idx'], v=abs(V[k]), v0=g['v0']),
                         sig=dict(kind=kind))
            if kind == 'slacks' and abs(np.angle(V[k]) - g['a0']) > 1e-9 + tol:
                ctx.fail('slack_angle', dict(label=label, gen=g['idx'], a=float(np.angle(V[k])), a0=g['a0']))
            if kind == 'pvs':
                p = res['gen'][(kind, opf._key(g['idx']))][0]
                if abs(p - g['p0']) > 1e-12:
                    ctx.fail('pv_active_power', dict(label=label, gen=g['idx'], p=p, p0=g['p0']))
    return modes


# ---- metamorphic twins -------------------------------------------------------

def twin_rename(net):
    """Rename every idx int<->str consistently."""
    t = copy.deepcopy(net)

    def flip(x, prefix):
        return ('%s%s' % (prefix, x)) if isinstance(x, int) else 900000 + abs(hash_str(x)) % 90000

    bmap = {}
    used = set()
    for b in t['buses']:
        new = flip(b['idx'], 'n')
        while new in used:
            new = new + 1 if isinstance(new, int) else new + '_'
        used.add(new)
        bmap[opf._key(b['idx'])] = new
        b['idx'] = new
    for ln in t['lines']:
        ln['bus1'], ln['bus2'] = bmap[ln['bus1']], bmap[ln['bus2']]
    for key in ('shunts', 'pqs', 'pvs', 'slacks'):
        for d in t[key]:
            d['bus'] = bmap[d['bus']]
    for key, pre in (('lines', 'ln'), ('shunts', 'sh'), ('pqs', 'ld'), ('pvs', 'gg'), ('slacks', 'gg')):
        used = set()
        for d in t[key]:
            new = flip(d['idx'], pre)
            while new in used:
                new = new + 1 if isinstance(new, int) else new + '_'
            used.add(new)
            d['idx'] = new
    # StaticGen idx must stay unique across PV and Slack
    seen = set()
    for d in t['pvs'] + t['slacks']:
        while d['idx'] in seen:
            d['idx'] = d['idx'] + 7 if isinstance(d['idx'], int) else d['idx'] + '_'
        seen.add(d['idx'])
    return t, bmap


def hash_str(s):
    h = 0
    for ch in str(s):
        h = (h * 131 + ord(ch)) % 1000003
    return h


def twin_rebase(net, k):
    """Same physical network: devices on other bases, system on another MVA base."""
    t = copy.deepcopy(net)
    kv = {opf._key(b['idx']): b['Vn'] for b in t['buses']}
    alt_s = [37.0, 250.0, 100.0, 1234.5]
    for j, ln in enumerate(t['lines']):
        Sn2 = alt_s[(j + k) % 4]
        Vn2 = kv[ln['bus1']] * [1.0, 1.1, 0.9][(j + k) % 3]
        f = (ln['Vn1'] ** 2 / ln['Sn']) / (Vn2 ** 2 / Sn2)      # Z_old_base / Z_new_base
        for z in ('r', 'x'):
            ln[z] *= f
        for y in ('b', 'g', 'b1', 'g1', 'b2', 'g2'):
            ln[y] /= f
        ln['Sn'], ln['Vn1'] = Sn2, Vn2
    for j, sh in enumerate(t['shunts']):
        Sn2 = alt_s[(j + k + 1) % 4]
        f = (sh['Vn'] ** 2 / sh['Sn']) / (sh['Vn'] ** 2 / Sn2)
        sh['g'] /= f
        sh['b'] /= f
        sh['Sn'] = Sn2
    mva2 = [400.0, 25.0, 100.0][k % 3]
    s = t['mva'] / mva2
    for key in ('pqs', 'pvs', 'slacks'):
        for d in t[key]:
            d['p0'] *= s
            d['q0'] *= s
    t['mva'] = mva2
    return t, s


def body_factory(ctx):
    def body(case):
        import time
        t0 = time.time()
        try:
            _body(case)
        finally:
            dt = time.time() - t0
            if dt > 30:
                ctx.note('slow case %.0fs: method=%s tol=%g nbus=%d' % (dt, case['cfg']['method'], case['cfg']['tol'],
                                                                       len(case['net']['buses'])))

    def _body(case):
        net, cfg, twin = case['net'], case['cfg'], case['twin']
        ctx.evaluated()
        feats = gnet.features(net)
        for f in feats:
            ctx.count('net:' + f)
        ctx.count('cfg:method=' + cfg['method'])
        ctx.count('cfg:lib=' + cfg['sparselib'])
        ctx.count('cfg:tol=%g' % cfg['tol'])
        res, ss = solve(net, cfg)
        ok_ref, Vref, info = opf.newton_pf(net)
        normal = bool(ok_ref and np.all(np.abs(Vref) >= 0.9) and np.all(np.abs(Vref) <= 1.1))
        ctx.count('ref:' + ('normal' if normal else ('solved_abnormal' if ok_ref else 'unsolved')))
        if not res['ok']:
            ctx.count('andes:not_converged' + (':raised_' + res['raised'] if res.get('raised') else ''))
            if normal:
                ctx.fail('must_converge', dict(method=cfg['method'], lib=cfg['sparselib'], tol=cfg['tol'],
                                               flat=cfg['flat']),
                         sig=dict(method=cfg['method']))
            return
        modes = check_solution(ctx, net, cfg, res)
        if modes is None:
            return
        if normal:
            # same solution as the independent solver (unique in the normal range)
            d = float(np.max(np.abs(vvec(net, res) - Vref)))
            if d > 1e-4:
                ctx.count('ref:different_solution')
        # metamorphic twin, both solved tightly
        tcfg = dict(cfg, tol=1e-10) if cfg['method'] != 'NK' else dict(cfg)
        vmin = min(v for v, _ in res['V'].values())
        vmax = max(v for v, _ in res['V'].values())
        judge_twin = twin['kind'] != 'none'
        if judge_twin and not (normal if twin['kind'] == 'rebase' else (vmin > 0.5 and vmax < 1.5)):
            # power-flow solutions are not unique; 'same answer' is only meaningful where the solution
            # is the well-conditioned normal-range one (re-basing changes rounding and regularisation)
            ctx.count('twin:not_judged_abnormal')
            judge_twin = False
        if judge_twin:
            base, _ = (res, ss) if tcfg['tol'] == cfg['tol'] else solve(net, tcfg)
            if twin['kind'] == 'order':
                tres, _ = solve(net, tcfg, permute=False)
                bmap = None
            elif twin['kind'] == 'rename':
                tnet, bmap = twin_rename(net)
                tres, _ = solve(tnet, tcfg)
            else:
                tnet, s = twin_rebase(net, twin['k'])
                tres, _ = solve(tnet, tcfg)
                bmap = None
            ctx.count('twin:' + twin['kind'])
            if base['ok'] and not tres['ok']:
                ctx.fail('twin_not_converged', dict(kind=twin['kind'], method=cfg['method']), sig=dict(kind=twin['kind'], method=cfg['method']))
            elif base['ok']:
                # both runs carry Line's 1e-8 regularisation, applied *after* conversion to the (different)
                # system base; its first-order effect on the solution is bounded through the oracle's reg term
                _, reg0, _ = opf.mismatch(net, vvec(net, base), base['gen'])
                tolv = (1e-8 if tcfg['method'] != 'NK' else 1e-4) + 50 * float(np.sum(reg0)) * \
                    (max(1.0, 1.0 / s, s) if twin['kind'] == 'rebase' else 1.0)
                for b in net['buses']:
                    k0 = opf._key(b['idx'])
                    k1 = opf._key(bmap[k0]) if bmap else k0
                    v0, a0 = base['V'][k0]
                    v1, a1 = tres['V'][k1]
                    if abs(v0 - v1) > tolv or abs(a0 - a1) > tolv:
                        ctx.fail('metamorphic_' + twin['kind'], dict(bus=b['idx'], v=[v0, v1], a=[a0, a1]),
                                 sig=dict(kind=twin['kind']))
                        break
        rich = len(feats & {'asym_shunt', 'tap', 'phase_shifter', 'branch_base', 'offnominal_vn1', 'parallel',
                            'offline_line', 'offline_load', 'offline_gen', 'offline_shunt', 'multi_load_bus'})
        if rich >= 2 and set(modes) <= {'p', 'off'}:
            ctx.nontrivial(dict(net=net, cfg=cfg), sample=dict(cfg=cfg, twin=twin, nbus=len(net['buses']),
                                                                 features=sorted(feats), net=_compact(net)))
    return body


def _compact(net):
    return dict(mva=net['mva'], buses=[(b['idx'], b['Vn']) for b in net['buses']],
                lines=[{k: (round(v, 5) if isinstance(v, float) else v) for k, v in ln.items()
                        if k in ('bus1', 'bus2', 'Sn', 'Vn1', 'r', 'x', 'b', 'b1', 'b2', 'g1', 'g2', 'tap', 'phi', 'u')}
                       for ln in net['lines'][:6]],
                n_lines=len(net['lines']), n_pq=len(net['pqs']), n_pv=len(net['pvs']), n_shunt=len(net['shunts']))


@st.composite
def cases(draw, max_buses):
    net = draw(gnet.networks(max_buses=max_buses))
    cfg = draw(configs())
    kind = draw(st.sampled_from(['none', 'order', 'rename', 'rebase']))
    return dict(net=net, cfg=cfg, twin=dict(kind=kind, k=draw(st.integers(0, 5))))


def camp_balance(ctx):
    quick = ctx.tier == 'quick'
    n = 60 if quick else 400
    drive(ctx, cases(10 if quick else 40), body_factory(ctx), n, name='balance',
          chunk=20 if quick else 40, budget_s=150 if quick else 1500)


# ---- stock cases ----------------------------------------------------------------

SUPPORTED = {'Bus', 'Line', 'PQ', 'PV', 'Slack', 'Shunt', 'Area', 'Region', 'Owner'}


def extract_net(ss):
    """Case dict from the data ANDES parsed (input-base values)."""
    def rows(model, fields):
        df = model.as_df(vin=True)
        out = []
        for _, r in df.iterrows():
            out.append({f: (r[f].item() if hasattr(r[f], 'item') else r[f]) for f in fields})
        return out
    net = dict(mva=float(ss.config.mva))
    for key, (model, fields) in build.FIELDS.items():
        net[key] = rows(getattr(ss, model), fields)
        for d in net[key]:
            d['u'] = int(d['u'])
    return net


def camp_stock(ctx):
    files = [f for f in build.stock_cases() if ctx.shard == hash_str(f) % ctx.nshards]
    quick = ctx.tier == 'quick'
    import os
    for path in files:
        if quick and os.path.getsize(path) > 400000:
            continue
        if '/GBnetwork' in path or 'wscc9' in path and False:
            pass
        try:
            ss = build.load_case(path, rc={'PFlow': dict(report=0)})
        except Exception as e:
            ctx.count('stock:load_error')
            continue
        pf_models = [m for m in ss.exist.pflow if ss.models[m].n > 0] if hasattr(ss.exist, 'pflow') else []
        extra = [m for m in pf_models if m not in SUPPORTED]
        if extra:
            ctx.count('stock:skipped_other_pflow_models')
            continue
        if ss.Bus.n > (300 if quick else 100000):
            ctx.count('stock:skipped_large')
            continue
        ctx.evaluated()
        ctx.current_case = dict(stock=path)
        try:
            ok = ss.PFlow.run()
        except Exception as e:
            ctx.count('stock:pflow_raised')
            ctx.note('PFlow.run raised %s on %s' % (type(e).__name__, os.path.basename(path)))
            continue
        if not ok:
            ctx.count('stock:not_converged')
            continue
        net = extract_net(ss)
        cfg = dict(method='NR', sparselib='klu', tol=ss.PFlow.config.tol)
        res = dict(ok=True, V={opf._key(idx): (float(ss.Bus.v.v[i]), float(ss.Bus.a.v[i])) for i, idx in enumerate(ss.Bus.idx.v)},
                   gen={})
        for i, idx in enumerate(ss.PV.idx.v):
            res['gen'][('pvs', opf._key(idx))] = (float(ss.PV.p.v[i]), float(ss.PV.q.v[i]))
        for i, idx in enumerate(ss.Slack.idx.v):
            res['gen'][('slacks', opf._key(idx))] = (float(ss.Slack.p.v[i]), float(ss.Slack.q.v[i]))
        # islanded buses are outside the property
        isl = set(ss.Bus.islanded_buses)
        if isl:
            ctx.count('stock:has_islanded_bus')
            continue
        busr = [x for x in ss.PV.busr.v if x is not None and not (isinstance(x, float) and math.isnan(x))]
        same = all(str(a) == str(b) for a, b in zip(ss.PV.busr.v, ss.PV.bus.v) if a is not None
                   and not (isinstance(a, float) and math.isnan(a)))
        if busr and not same:
            ctx.count('stock:remote_control')
        try:
            check_solution(ctx, net, cfg, res, label=os.path.relpath(path, build.cases_root()))
        except Exception:
            ctx.current_case = dict(stock=path)
            raise
        ctx.count('stock:checked')
        ctx.nontrivial(dict(stock=os.path.basename(path)), sample=dict(stock=os.path.basename(path), nbus=ss.Bus.n))


CAMPAIGNS = {
    'balance': dict(fn=camp_balance, shards=dict(quick=16, thorough=16)),
    'stock': dict(fn=camp_stock, shards=dict(quick=4, thorough=8)),
}


def replay(ctx, rec):
    case = rec['case']
    if 'stock' in case:
        ctx.shard, ctx.nshards = 0, 1
        raise NotImplementedError('stock-case replays are re-run by the stock campaign')
    body_factory(ctx)(case)
