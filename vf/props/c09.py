"""C09 - limiters and other discrete components enforce their documented semantics."""
import os

import numpy as np
from hypothesis import strategies as st
from hypothesis.stateful import RuleBasedStateMachine, rule, precondition, initialize

from .. import build, sim
from ..runner import drive, drive_machine
from . import c06

RULE = ("(a) component level: every memory-less discrete class (Limiter, HardLimiter, "
        "DeadBand, LessThan, IsEqual, Switcher, Selector, AntiWindup) instantiated stand-alone on value holders with "
        "generated (u, lower, upper, signs, equal, one-sided) tuples including u == limit, lower == upper and "
        "sign-flipped limits, against reference comparisons; history components (Delay step/time, Average step/time, "
        "Derivative, Sampling) driven by a Hypothesis state machine whose rules are what the integrator does "
        "(advance, re-evaluate at the same time, rewind after a rejected step) with the invariant output == reference "
        "computed from the accepted input history. (b) in simulation: cases with active limits run with store_z/store_f; "
        "for every AntiWindup instance at every stored instant lower <= x <= upper, pegged => x at the limit and f = 0; "
        "flags one-hot at all stored instants. Non-trivial: (a) tuples on a boundary / histories with >= 1 rewind and "
        ">= 1 repeated time; (b) runs in which >= 1 limiter changes state. Distinct by the JSON of the tuple/history/case.")
ASSUMPTIONS = [
    "Generated limit pairs satisfy lower <= upper after applying the signs (crossed limits are not admissible data).",
    "Sampling is exercised with offset = 0 (the documented 'sample every interval and hold').",
    "Time-mode Delay/Average: output before a full window is the initial value / the mean over the elapsed time.",
    "In simulation a limited state may end one step outside its limit by at most the one-step discretisation allowance h/(2T)(|f_k|+|f_k-1|) plus 10*tol; pegged states must sit exactly at the limit with zero derivative.",
]


class Holder:
    def __init__(self, v, name='h'):
        self.v = np.array(v, dtype=float)
        self.name = name
        self.e = np.zeros_like(self.v)
        self.a = np.arange(len(self.v))


# ---------------------------------------------------------------------------------------------
# (a1) memory-less components
# ---------------------------------------------------------------------------------------------

vals = st.sampled_from([-2.0, -1.0, -0.5, 0.0, 0.5, 1.0, 2.0, 3.0])


@st.composite
def limiter_cases(draw):
    n = draw(st.integers(1, 5))
    kind = draw(st.sampled_from(['Limiter', 'HardLimiter', 'DeadBand', 'AntiWindup', 'LessThan', 'IsEqual',
                                 'Switcher', 'Selector', 'RateLimiter', 'AntiWindupRate', 'AntiWindupIter', 'AntiWindupIter']))
    lo, up, u = [], [], []
    for _ in range(n):
        a, b = sorted([draw(vals), draw(vals)])
        if draw(st.integers(0, 3)) == 0:
            b = a
        lo.append(a)
        up.append(b)
        u.append(draw(st.one_of(vals, st.sampled_from([a, b]))))
    return dict(kind=kind, u=u, lower=lo, upper=up, equal=draw(st.booleans()), enable=draw(st.sampled_from([True, True, False])),
                sign_lower=draw(st.sampled_from([1, 1, -1])), sign_upper=draw(st.sampled_from([1, 1, -1])),
                no_lower=draw(st.sampled_from([False, False, True])), no_upper=draw(st.sampled_from([False, False, True])),
                e=[draw(st.sampled_from([-1.0, 0.0, 1.0])) for _ in range(n)], u2=[draw(vals) for _ in range(n)],
                # rate limiters: derivative values, rate limits and per-device enable conditions
                de=[draw(st.sampled_from([-3.0, -1.0, -0.5, 0.0, 0.5, 1.0, 3.0])) for _ in range(n)],
                rlo=[draw(st.sampled_from([-2.0, -1.0, -0.5])) for _ in range(n)], rup=[draw(st.sampled_from([0.5, 1.0, 2.0])) for _ in range(n)],
                clo=[draw(st.sampled_from([0, 1])) for _ in range(n)], cup=[draw(st.sampled_from([0, 1])) for _ in range(n)],
                cond_given=draw(st.booleans()),
                # AntiWindupIter: the (state, derivative) pairs the Newton iterations 1..8 of one step present to the limiter
                iters=[[(draw(st.sampled_from([lo[k], up[k], lo[k] - 0.5, up[k] + 0.5, 0.5 * (lo[k] + up[k])])),
                         draw(st.sampled_from([-1.0, 0.0, 1.0]))) for k in range(n)] for _ in range(8)] if kind == 'AntiWindupIter' else None)


def limiter_case(ctx, c):
    import andes.core.discrete as D
    from andes.core.common import DummyValue
    n = len(c['u'])
    u = Holder(c['u'], 'u')
    kind = c['kind']
    ctx.count('kind:' + kind)
    sl, su = c['sign_lower'], c['sign_upper']
    # stored limits are such that the *effective* limits (after signs) are the generated lower/upper
    lower = Holder([x * sl for x in c['lower']], 'lower')
    upper = Holder([x * su for x in c['upper']], 'upper')
    lo = np.array(c['lower'])
    up = np.array(c['upper'])
    uv = np.array(c['u'])
    boundary = bool(np.any(uv == lo) or np.any(uv == up) or np.any(lo == up))
    sig = dict(kind=kind, degenerate=bool(np.any((lo == up) & (uv == lo))))
    if kind in ('Limiter', 'HardLimiter', 'SortedLimiter', 'DeadBand'):
        kw = dict(enable=c['enable'])
        if kind == 'DeadBand':
            comp = D.DeadBand(u, center=DummyValue(0.0), lower=Holder(c['lower'], 'lower'), upper=Holder(c['upper'], 'upper'),
                              enable=c['enable'], equal=c['equal'])
            no_l = no_u = False
            eq = c['equal']
        else:
            cls = getattr(D, kind)
            comp = cls(u, lower, upper, enable=c['enable'], no_lower=c['no_lower'], no_upper=c['no_upper'],
                       sign_lower=sl, sign_upper=su, equal=c['equal'])
            no_l, no_u, eq = c['no_lower'], c['no_upper'], c['equal']
        comp.list2array(n)
        comp.check_var()
        if not c['enable']:
            return
        zu = (uv >= up) if eq else (uv > up)
        zl = (uv <= lo) if eq else (uv < lo)
        if no_u:
            zu = np.zeros(n, dtype=bool)
        if no_l:
            zl = np.zeros(n, dtype=bool)
        got = (np.asarray(comp.zi, dtype=float), np.asarray(comp.zl, dtype=float), np.asarray(comp.zu, dtype=float))
        total = got[0] + got[1] + got[2]
        if np.any(total != 1):
            k = int(np.argmax(total != 1))
            ctx.fail('flags_not_one_hot', dict(case=c, device=k, zi=float(got[0][k]), zl=float(got[1][k]), zu=float(got[2][k])), sig=sig)
        # the flag that is set must be one whose comparison holds; 'inside' only if neither comparison holds
        bad = ((got[2] == 1) & ~zu) | ((got[1] == 1) & ~zl) | ((got[0] == 1) & (zu | zl))
        if np.any(bad):
            ctx.fail('flags_disagree_with_comparison', dict(case=c, zi=got[0].tolist(), zl=got[1].tolist(), zu=got[2].tolist(),
                                                            cmp_lower=zl.astype(float).tolist(), cmp_upper=zu.astype(float).tolist()), sig=sig)
    elif kind == 'AntiWindup':
        state = Holder(c['u'], 'x')
        state.e = np.array(c['e'], dtype=float)
        comp = D.AntiWindup(state, lower, upper, no_lower=c['no_lower'], no_upper=c['no_upper'], sign_lower=sl, sign_upper=su)
        comp.list2array(n)
        comp.check_eq()
        ev = np.array(c['e'])
        zu = (uv >= up) & (ev >= 0)
        zl = (uv <= lo) & (ev <= 0)
        if c['no_upper']:
            zu[:] = False
        if c['no_lower']:
            zl[:] = False
        zi, zlg, zug = np.asarray(comp.zi, float), np.asarray(comp.zl, float), np.asarray(comp.zu, float)
        total = zi + zlg + zug
        if np.any(total != 1):
            k = int(np.argmax(total != 1))
            ctx.fail('flags_not_one_hot', dict(case=c, device=k, zi=float(zi[k]), zl=float(zlg[k]), zu=float(zug[k])), sig=sig)
        # a pegged state sits at its limit with zero derivative; a free state is untouched
        for k in range(n):
            if zu[k] and not zl[k]:
                want_x, want_e = up[k], 0.0
            elif zl[k] and not zu[k]:
                want_x, want_e = lo[k], 0.0
            elif zl[k] and zu[k]:
                want_x, want_e = up[k], 0.0      # lower == upper == x: any of the two (equal) limits
            else:
                want_x, want_e = uv[k], ev[k]
            if state.v[k] != want_x or state.e[k] != want_e:
                ctx.fail('pegged_state_not_at_limit', dict(case=c, device=k, x=float(state.v[k]), e=float(state.e[k]),
                                                           expected_x=float(want_x), expected_e=float(want_e)), sig=sig)
    elif kind == 'AntiWindupIter':
        # the sequence of evaluations the Newton iterations of one step perform on one anti-windup limiter; after the
        # documented lock (niter > niter_lock) a pegged state stays pegged, so the comparison is demanded only before it;
        # at every iteration: flags one-hot, a flagged state sits at its limit with zero derivative, a free one is untouched
        state = Holder(c['u'], 'x')
        state.e = np.array(c['e'], dtype=float)
        comp = D.AntiWindup(state, lower, upper, no_lower=c['no_lower'], no_upper=c['no_upper'], sign_lower=sl, sign_upper=su)
        comp.list2array(n)
        seq = [list(zip(c['u'], c['e']))] + [list(map(tuple, it)) for it in c['iters']]
        prev = None
        for niter, pts in enumerate(seq):
            xv = np.array([p[0] for p in pts], dtype=float)
            ev = np.array([p[1] for p in pts], dtype=float)
            state.v[:] = xv
            state.e[:] = ev
            comp.check_eq(niter=niter)
            zi, zlg, zug = (np.broadcast_to(np.asarray(z, float), (n,)).copy() for z in (comp.zi, comp.zl, comp.zu))
            sigk = dict(sig, after_lock=bool(niter > comp.niter_lock))
            if np.any(zi + zlg + zug != 1):
                k = int(np.argmax(zi + zlg + zug != 1))
                ctx.fail('flags_not_one_hot', dict(case=c, niter=niter, device=k, zi=float(zi[k]), zl=float(zlg[k]), zu=float(zug[k])), sig=sigk)
            zu = (xv >= up) & (ev >= 0) & (not c['no_upper'])
            zl = (xv <= lo) & (ev <= 0) & (not c['no_lower'])
            if niter <= comp.niter_lock:
                bad = ((zug == 1) & ~zu) | ((zlg == 1) & ~zl) | ((zi == 1) & (zu | zl))
                if np.any(bad):
                    ctx.fail('flags_disagree_with_comparison', dict(case=c, niter=niter, zi=zi.tolist(), zl=zlg.tolist(), zu=zug.tolist()), sig=sigk)
            elif prev is not None:
                # locked: a state that was pegged at the previous iteration is still pegged
                released = ((prev[1] == 1) | (prev[2] == 1)) & (zi == 1)
                if np.any(released):
                    ctx.fail('locked_limiter_released', dict(case=c, niter=niter, device=int(np.argmax(released))), sig=sigk)
            for k in range(n):
                if zug[k] == 1:
                    want_x, want_e = up[k], 0.0
                elif zlg[k] == 1:
                    want_x, want_e = lo[k], 0.0
                else:
                    want_x, want_e = xv[k], ev[k]
                if state.v[k] != want_x or state.e[k] != want_e:
                    ctx.fail('pegged_state_not_at_limit', dict(case=c, niter=niter, device=k, x=float(state.v[k]), e=float(state.e[k]),
                                                               flags=[float(zi[k]), float(zlg[k]), float(zug[k])],
                                                               expected_x=float(want_x), expected_e=float(want_e)), sig=sigk)
            prev = (zi.copy(), zlg.copy(), zug.copy())
        boundary = True
    elif kind in ('RateLimiter', 'AntiWindupRate'):
        # documented: the derivative of the state is clipped to [rate_lower, rate_upper] where the respective condition
        # array enables the limit; AntiWindupRate then applies the anti-windup rule to the clipped derivative
        state = Holder(c['u'], 'x')
        state.e = np.array(c['de'], dtype=float)
        rlo, rup = np.array(c['rlo']), np.array(c['rup'])
        clo = np.array(c['clo'], dtype=float) if c['cond_given'] else np.ones(n)
        cup = np.array(c['cup'], dtype=float) if c['cond_given'] else np.ones(n)
        kw = {}
        if kind == 'RateLimiter':
            if c['cond_given']:
                kw = dict(lower_cond=Holder(c['clo'], 'clo'), upper_cond=Holder(c['cup'], 'cup'))
            comp = D.RateLimiter(state, Holder(c['rlo'], 'rlo'), Holder(c['rup'], 'rup'), no_lower=c['no_lower'], no_upper=c['no_upper'], **kw)
            nl, nu = c['no_lower'], c['no_upper']
        else:
            if c['cond_given']:
                kw = dict(rate_lower_cond=Holder(c['clo'], 'clo'), rate_upper_cond=Holder(c['cup'], 'cup'))
            comp = D.AntiWindupRate(state, Holder(c['lower'], 'lower'), Holder(c['upper'], 'upper'), Holder(c['rlo'], 'rlo'), Holder(c['rup'], 'rup'),
                                    rate_no_lower=c['no_lower'], rate_no_upper=c['no_upper'], **kw)
            nl, nu = c['no_lower'], c['no_upper']
        comp.list2array(n)
        comp.check_eq()
        de = np.array(c['de'])
        want = de.copy()
        zlr = (de < rlo) & (clo == 1) & (not nl)
        want[zlr] = rlo[zlr]
        zur = (want > rup) & (cup == 1) & (not nu)
        want[zur] = rup[zur]
        if not nl and np.any(np.asarray(comp.zlr, float) != zlr):
            ctx.fail('rate_limit_flags_wrong', dict(case=c, which='zlr', got=np.asarray(comp.zlr, float).tolist(), expected=zlr.astype(float).tolist()), sig=sig)
        if not nu and np.any(np.asarray(comp.zur, float) != zur):
            ctx.fail('rate_limit_flags_wrong', dict(case=c, which='zur', got=np.asarray(comp.zur, float).tolist(), expected=zur.astype(float).tolist()), sig=sig)
        if kind == 'AntiWindupRate':
            zu = (uv >= up) & (want >= 0)
            zl = (uv <= lo) & (want <= 0)
            for k in range(n):
                if zu[k] or zl[k]:
                    want[k] = 0.0
        if np.any(state.e != want):
            k = int(np.argmax(state.e != want))
            ctx.fail('rate_not_limited_as_documented', dict(case=c, device=k, derivative=float(state.e[k]), expected=float(want[k])), sig=sig)
        if np.any(zlr) or np.any(zur):
            boundary = True
    elif kind == 'LessThan':
        comp = D.LessThan(u, Holder(c['upper'], 'bound'), equal=c['equal'], enable=c['enable'])
        comp.list2array(n)
        comp.check_var()
        if not c['enable']:
            return
        z1 = (uv <= up) if c['equal'] else (uv < up)
        if np.any(np.asarray(comp.z1, float) != z1) or np.any(np.asarray(comp.z0, float) != ~z1):
            ctx.fail('flags_disagree_with_comparison', dict(case=c, z1=np.asarray(comp.z1, float).tolist()), sig=sig)
    elif kind == 'IsEqual':
        comp = D.IsEqual(u, Holder(c['upper'], 'bound'), enable=c['enable'])
        comp.list2array(n)
        comp.check_var()
        if not c['enable']:
            return
        if np.any(np.asarray(comp.z1, float) != (uv == up)):
            ctx.fail('flags_disagree_with_comparison', dict(case=c, z1=np.asarray(comp.z1, float).tolist()), sig=sig)
    elif kind == 'Switcher':
        opts = [0, 1, 2, 3]
        sel = Holder([abs(int(x)) % 4 for x in c['u']], 'sel')
        comp = D.Switcher(sel, options=opts)
        comp.owner = type('O', (), dict(class_name='T'))()
        comp.list2array(n)
        comp.check_var()
        for i, o in enumerate(opts):
            if np.any(np.asarray(getattr(comp, 's%d' % i), float) != (sel.v == o)):
                ctx.fail('switcher_flags_wrong', dict(case=c, option=o), sig=sig)
        tot = sum(np.asarray(getattr(comp, 's%d' % i), float) for i in range(4))
        if np.any(tot != 1):
            ctx.fail('flags_not_one_hot', dict(case=c), sig=sig)
    elif kind == 'Selector':
        a, b = Holder(c['u'], 'a'), Holder(c['u2'], 'b')
        comp = D.Selector(a, b, fun=np.maximum.reduce)
        comp.list2array(n)
        comp.check_var()
        mx = np.maximum(a.v, b.v)
        s0, s1 = np.asarray(comp.s0, float), np.asarray(comp.s1, float)
        val = s0 * a.v + s1 * b.v
        tie = a.v == b.v
        # the selected value is the maximum (ties: both flags are set by design, documented as a known pitfall)
        if np.any((val != mx) & ~tie) or np.any(((s0 + s1) != 1) & ~tie):
            ctx.fail('selector_selects_wrong_input', dict(case=c, s0=s0.tolist(), s1=s1.tolist()), sig=sig)
    if boundary:
        ctx.nontrivial(c, sample=c)


def camp_memoryless(ctx):
    def body(c):
        ctx.evaluated()
        limiter_case(ctx, c)
    drive(ctx, limiter_cases(), body, 1500 if ctx.tier == 'quick' else 40000, name='memoryless', chunk=500)


# ---------------------------------------------------------------------------------------------
# (a2) history components: state machine
# ---------------------------------------------------------------------------------------------

def interp(H, t):
    """piecewise-linear interpolation of history H=[(t, v)] at time t (clamped at the ends)."""
    if t <= H[0][0]:
        return H[0][1].copy()
    for (t0, v0), (t1, v1) in zip(H[:-1], H[1:]):
        if t0 <= t <= t1:
            if t1 == t0:
                return v1.copy()
            return v0 + (v1 - v0) * (t - t0) / (t1 - t0)
    return H[-1][1].copy()


def mean_over(H, ta, tb):
    """mean of the piecewise-linear interpolant of H over [ta, tb]."""
    pts = sorted(set([ta, tb] + [t for t, _ in H if ta < t < tb]))
    tot = 0.0
    for p0, p1 in zip(pts[:-1], pts[1:]):
        tot = tot + 0.5 * (interp(H, p0) + interp(H, p1)) * (p1 - p0)
    return tot / (tb - ta)


uvec = st.lists(st.sampled_from([-1.0, 0.0, 0.25, 0.5, 1.0, 2.0, 3.5]), min_size=2, max_size=2)


class HistoryMachine(RuleBasedStateMachine):
    ctx = None
    last_history = None

    def __init__(self):
        super().__init__()
        self.hist = []
        type(self).last_history = self.hist
        self.H = []          # accepted history + current attempt (last entry)
        self.t = 0.0
        self.comp = None
        self.kind = None
        self.nrewind = 0
        self.nsame = 0
        self.just_rewound = False
        self.sample = None   # Sampling reference: (last_t, v, prev_v)

    @initialize(kind=st.sampled_from(['delay_step', 'delay_step', 'delay_time', 'average_step', 'average_time', 'derivative', 'sampling']),
                par=st.sampled_from([1, 2, 3]), tau=st.sampled_from([0.1, 0.25, 0.6]), u0=uvec)
    def setup(self, kind, par, tau, u0):
        self.do_setup(kind, par, tau, u0)

    def do_setup(self, kind, par, tau, u0):
        import andes.core.discrete as D
        self.kind, self.par, self.tau = kind, par, tau
        self.u = Holder(u0, 'u')
        if kind == 'delay_step':
            self.comp = D.Delay(self.u, mode='step', delay=par)
        elif kind == 'delay_time':
            self.comp = D.Delay(self.u, mode='time', delay=tau)
        elif kind == 'average_step':
            self.comp = D.Average(self.u, mode='step', delay=par)
        elif kind == 'average_time':
            self.comp = D.Average(self.u, mode='time', delay=tau)
        elif kind == 'derivative':
            self.comp = D.Derivative(self.u)
        else:
            self.comp = D.Sampling(self.u, interval=tau, offset=0.0)
        self.comp.list2array(2)
        self.hist.append(['init', kind, par, tau, list(u0)])
        self.call(0.0, u0, 'init')

    # -- the three things an integrator does -------------------------------------------------------------------------
    @rule(dt=st.sampled_from([0.01, 0.05, 0.1, 0.2, 0.5]), u=uvec)
    def advance(self, dt, u):
        self.hist.append(['advance', dt, list(u)])
        self.t = round(self.t + dt, 10)
        self.call(self.t, u, 'advance')

    @precondition(lambda self: self.t > 0)
    @rule(u=uvec)
    def same_time(self, u):
        self.hist.append(['same_time', list(u)])
        self.nsame += 1
        self.call(self.t, u, 'same')

    @precondition(lambda self: len(self.H) >= 2 and self.t > 0 and self.H[-1][0] > self.H[-2][0])
    @rule(frac=st.sampled_from([0.25, 0.5, 0.9]), u=uvec)
    def rewind(self, frac, u):
        tprev = self.H[-2][0]
        self.t = round(tprev + frac * (self.H[-1][0] - tprev), 10)
        self.hist.append(['rewind', frac, list(u)])
        self.nrewind += 1
        self.call(self.t, u, 'rewind')

    # -- reference -----------------------------------------------------------------------------------------------------
    def call(self, t, u, how):
        if getattr(self, 'dead', False):
            return
        uv = np.array(u, dtype=float)
        self.u.v[:] = uv
        if how == 'init':
            self.H = [(0.0, uv.copy())]
            self.sample = dict(last_t=0.0, v=uv.copy(), prev=uv.copy())
        elif how == 'advance':
            self.H.append((t, uv.copy()))
        else:       # same time or rewind: the current attempt is replaced
            self.H[-1] = (t, uv.copy())
        self.just_rewound = how == 'rewind'
        if self.kind in ('delay_time', 'average_time') and len(self.H) >= 2 and \
                (how == 'rewind' or (how == 'same' and (t - self.tau) > self.H[-2][0] - 1e-12)):
            # known finding F26: the interpolated window start is not refreshed when the current input is re-evaluated
            self.tainted = True
            self.ctx.count('excluded_known:time_mode_reevaluation')
            self.ctx.fail('output_differs_from_definition', dict(note='window start inside the step being re-evaluated'),
                          sig=dict(kind=self.kind, time_mode_reevaluation=True))
        try:
            self.comp.check_var(t)
        except Exception as e:
            self.fail('component_raised', dict(error='%s: %s' % (type(e).__name__, e)),
                      dict(kind=self.kind, how=how, time_mode_reevaluation=bool(getattr(self, 'tainted', False))))
            self.dead = True
            return
        want = self.reference(t, how)
        if want is None or getattr(self, 'tainted', False):
            return
        got = np.asarray(self.comp.v, dtype=float)
        if got.shape != want.shape or not np.allclose(got, want, rtol=1e-9, atol=1e-12, equal_nan=True):
            self.fail('output_differs_from_definition',
                      dict(t=t, how=how, output=got.tolist(), expected=want.tolist(), accepted_history=[(a, b.tolist()) for a, b in self.H[-6:]]),
                      dict(kind=self.kind, how=how, after_rewind=self.nrewind > 0))

    def reference(self, t, how):
        H = self.H
        if self.kind == 'delay_step':
            k = len(H) - 1 - self.par
            return H[k][1] if k >= 0 else H[0][1]
        if self.kind == 'delay_time':
            return interp(H, t - self.tau) if t - H[0][0] > self.tau else H[0][1]
        if self.kind == 'average_step':
            if t == 0:
                return H[0][1]
            lo = max(0, len(H) - 1 - self.par)
            W = H[lo:]
            if len(W) < 2 or W[-1][0] == W[0][0]:
                return None
            # before the window is full, missing entries count as zero-valued samples at time 0 in ANDES; only judge full windows
            if len(H) - 1 < self.par:
                return None
            return mean_over(W, W[0][0], W[-1][0])
        if self.kind == 'average_time':
            if t == 0:
                return H[0][1]
            ta = max(H[0][0], t - self.tau)
            if t == ta:
                return None
            return mean_over(H, ta, t)
        if self.kind == 'derivative':
            if t == 0 or how == 'rewind' or len(H) < 2:
                return np.zeros(2)
            d = (H[-1][1] - H[-2][1]) / (H[-1][0] - H[-2][0])
            d[np.abs(d) < 1e-8] = 0
            return d
        if self.kind == 'sampling':
            s = self.sample
            uv = H[-1][1]
            if how == 'init':
                return uv
            if how == 'advance':
                if (t - s['last_t']) > self.tau:
                    s['undo'] = dict(last_t=s['last_t'], v=s['v'].copy())
                    s['v'] = uv.copy()
                    s['last_t'] = t
                    s['sampled_now'] = True
                else:
                    s['sampled_now'] = False
                return s['v']
            if how == 'same':
                if s.get('sampled_now'):
                    s['v'] = uv.copy()
                return s['v']
            if how == 'rewind':
                if s.get('sampled_now'):
                    # known finding F27: ANDES treats the retried time as the new sampling instant
                    self.tainted = True
                    self.ctx.count('excluded_known:sampling_rewind_at_sample_instant')
                    self.ctx.fail('output_differs_from_definition', dict(note='rejected step at a sampling instant'),
                                  sig=dict(kind='sampling', rewind_at_sample_instant=True))
                    # the sample taken at the rejected time is undone; the retried time may qualify again
                    s['v'] = s['undo']['v'].copy()
                    s['last_t'] = s['undo']['last_t']
                    if (t - s['last_t']) > self.tau:
                        s['undo'] = dict(last_t=s['last_t'], v=s['v'].copy())
                        s['v'] = uv.copy()
                        s['last_t'] = t
                        s['sampled_now'] = True
                    else:
                        s['sampled_now'] = False
                return s['v']
        return None

    def fail(self, clause, detail, sig):
        type(self).last_history = list(self.hist)
        self.ctx.fail(clause, dict(detail, history=list(self.hist)), sig=sig)

    def teardown(self):
        if self.kind is not None:
            self.ctx.count('machine:' + self.kind)
            if self.nrewind and self.nsame:
                self.ctx.nontrivial(dict(h=self.hist), sample=dict(history=self.hist[:14]))


def camp_history(ctx):
    class M(HistoryMachine):
        pass
    M.ctx = ctx
    n = 150 if ctx.tier == 'quick' else 4000
    done = drive_machine(ctx, M, n, steps=25, name='history', budget_s=150 if ctx.tier == 'quick' else 1200)
    ctx.evaluated(done)
    if ctx.violations and ctx.violations[-1].get('case') is None:
        ctx.violations[-1]['case'] = dict(history=M.last_history)


# ---------------------------------------------------------------------------------------------
# (b) in simulation
# ---------------------------------------------------------------------------------------------

SIM_CASES = ['kundur/kundur_aw.xlsx', 'ieee14/ieee14_fault.xlsx', 'kundur/kundur_full.xlsx', 'ieee14/ieee14_esst3a.xlsx',
             'kundur/kundur_sexs.xlsx', 'ieee14/ieee14_exac1.xlsx', 'kundur/kundur_ieeeg1.xlsx', 'ieee14/ieee14_pvd1.xlsx']


@st.composite
def sim_cases(draw):
    base = draw(st.sampled_from(SIM_CASES))
    ev = []
    if draw(st.booleans()):
        t = float(round(draw(st.floats(0.1, 0.5)), 3))
        ev = [dict(kind='fault', t=t, cls='offgrid', u=1, sel=draw(st.integers(0, 40)), dur=draw(st.sampled_from([0.05, 0.1])))]
    return dict(base=base, events=ev, tf=draw(st.sampled_from([1.5, 3.0])), tight=draw(st.booleans()),
                tol=draw(st.sampled_from([1e-4, 1e-6])))


def sim_case(ctx, c):
    path = os.path.join(build.cases_root(), c['base'])
    rc = {'PFlow': dict(report=0), 'TDS': dict(no_tqdm=1, tf=c['tf'], store_z=1, store_f=1, criteria=0, tol=c['tol'])}
    ss = build.load_case(path, rc=rc, setup=False)
    c06.materialise(ss, dict(events=c['events']))
    ss.setup()
    # optionally tighten the limits of anti-windup limiters so that they become active
    if not ss.PFlow.run():
        ctx.count('sim:pflow_failed')
        return
    try:
        ss.TDS.init()
    except Exception:
        ctx.count('sim:init_raised')
        return
    # locate anti-windup limiters and hard limiters
    aws, hls = [], []
    for mname, mdl in ss.models.items():
        if mdl.n == 0:
            continue
        for dname, d in mdl.discrete.items():
            cname = d.__class__.__name__
            if cname in ('AntiWindup', 'AntiWindupRate'):
                aws.append((mname, dname, d))
            elif cname in ('HardLimiter', 'Limiter'):
                hls.append((mname, dname, d))
    if c['tight'] and aws:
        # move the limits close to the operating point (still containing it) so that the disturbance reaches them
        for mname, dname, d in aws:
            x = d.state.v
            up = -d.upper.v if d.sign_upper.v == -1 else d.upper.v
            lo = -d.lower.v if d.sign_lower.v == -1 else d.lower.v
            if np.ndim(up) == 0 or np.ndim(lo) == 0 or not hasattr(d.upper, 'vin') or not hasattr(d.lower, 'vin'):
                continue
            margin = 0.02 * (1 + np.abs(x))
            if d.sign_upper.v == 1 and not d.no_upper:
                d.upper.v[:] = np.minimum(d.upper.v, x + margin)
            if d.sign_lower.v == 1 and not d.no_lower:
                d.lower.v[:] = np.maximum(d.lower.v, x - margin)
    mon = sim.Monitor(ss, keep_vectors=True).attach()
    # sample limiter flags and limits at every stored step
    def snap():
        out = []
        for mname, dname, d in aws:
            up = (-d.upper.v if d.sign_upper.v == -1 else d.upper.v)
            lo = (-d.lower.v if d.sign_lower.v == -1 else d.lower.v)
            out.append((np.array(d.zi, float).copy(), np.array(d.zl, float).copy(), np.array(d.zu, float).copy(),
                        np.array(up, float).copy() * np.ones(len(d.state.a)), np.array(lo, float).copy() * np.ones(len(d.state.a))))
        hl = []
        for mname, dname, d in hls:
            hl.append((np.array(d.zi, float).copy(), np.array(d.zl, float).copy(), np.array(d.zu, float).copy()))
        return out, hl
    mon.watch['lim'] = snap
    try:
        ok = ss.TDS.run()
    except Exception as e:
        ctx.count('sim:run_raised_' + type(e).__name__)
        ok = False
    tol = c['tol']
    changed = 0
    brief = dict(c)
    prev_flags = None
    prev_rec = None
    for rec in mon.stored:
        awsnap, hlsnap = rec['watch']['lim']
        x, f = rec['x'], rec['f']
        flags_now = []
        for (mname, dname, d), (zi, zl, zu, up, lo) in zip(aws, awsnap):
            a = np.asarray(d.state.a, dtype=int)
            if d.state.v_code != 'x' or len(a) == 0:
                continue
            xv, fv = x[a], f[a]
            slack = 10 * tol * (1 + np.abs(xv))
            # one-step discretisation allowance: a state that was inside one step ago can end the step outside by at
            # most h/(2T) (|f_k| + |f_k-1|) before the limiter (which tests x >= limit and f >= 0) catches it
            Tv = np.array(ss.dae.Tf[a], dtype=float)
            if prev_rec is not None and len(prev_rec['f']) == len(f):
                hk = rec['t'] - prev_rec['t']
                with np.errstate(all='ignore'):
                    extra = np.where(Tv > 0, hk / (2 * np.where(Tv > 0, Tv, 1.0)) * (np.abs(fv) + np.abs(prev_rec['f'][a])), 0.0)
                slack = slack + extra
            sig = dict(model=mname, limiter=dname)
            if np.any(zi + zl + zu != 1):
                ctx.fail('sim_flags_not_one_hot', dict(case=brief, t=rec['t'], model=mname, limiter=dname), sig=sig)
            over = (~np.array([d.no_upper] * len(a))) & (xv > up + slack)
            under = (~np.array([d.no_lower] * len(a))) & (xv < lo - slack)
            if np.any(over) or np.any(under):
                k = int(np.argmax(over | under))
                Tk = float(ss.dae.Tf[a[k]])
                ctx.fail('limited_quantity_outside_limits', dict(case=brief, t=rec['t'], model=mname, limiter=dname, device=k,
                                                                 x=float(xv[k]), lower=float(lo[k]), upper=float(up[k]), time_constant=Tk,
                                                                 derivative=float(fv[k])),
                         sig=dict(zero_time_constant=bool(Tk == 0.0)))
            peg = (zl + zu) > 0
            if np.any(peg):
                lim = np.where(zu > 0, up, lo)
                bad = peg & ((np.abs(xv - lim) > slack) | (np.abs(fv) > 1e-12))
                if np.any(bad):
                    k = int(np.argmax(bad))
                    ctx.fail('pegged_state_moves', dict(case=brief, t=rec['t'], model=mname, limiter=dname, device=k, x=float(xv[k]),
                                                        limit=float(lim[k]), f=float(fv[k])), sig=sig)
            flags_now.append(np.concatenate([zl, zu]))
        for (mname, dname, d), (zi, zl, zu) in zip(hls, hlsnap):
            tot = zi + (zl if not d.no_lower else 0) + (zu if not d.no_upper else 0)
            if d.enable and np.any(tot != 1):
                ctx.fail('sim_flags_not_one_hot', dict(case=brief, t=rec['t'], model=mname, limiter=dname), sig=dict(model=mname, limiter=dname))
        fl = np.concatenate(flags_now) if flags_now else np.zeros(0)
        if prev_flags is not None and len(fl) == len(prev_flags) and np.any(fl != prev_flags):
            changed += 1
        prev_flags = fl
        prev_rec = rec
    ctx.count('sim:runs')
    ctx.count('sim:stored_steps', len(mon.stored))
    ctx.count('sim:antiwindups', len(aws))
    if changed:
        ctx.count('sim:runs_with_limiter_activity')
        ctx.nontrivial(brief, sample=dict(case=brief, limiter_changes=changed, antiwindups=len(aws), steps=len(mon.stored)))


def camp_sim(ctx):
    def body(c):
        ctx.evaluated()
        sim_case(ctx, c)
    drive(ctx, sim_cases(), body, 5 if ctx.tier == 'quick' else 80, name='sim', chunk=5, shrink=False,
          budget_s=160 if ctx.tier == 'quick' else 1500)


# ---------------------------------------------------------------------------------------------
# (a3) the value a hard-limited block puts out, for every sign convention of its limits
# ---------------------------------------------------------------------------------------------

@st.composite
def gain_limiter_cases(draw):
    sl, su = draw(st.sampled_from([(1, 1), (-1, 1), (-1, -1)]))
    a = draw(st.sampled_from([0.2, 0.5, 1.0, 2.0]))
    b = draw(st.sampled_from([0.3, 0.7, 1.5, 3.0]))
    if (sl, su) == (1, 1):
        lower, upper = min(a, b), max(a, b)            # limits [lower, upper]
    elif (sl, su) == (-1, 1):
        lower, upper = a, b                            # limits [-lower, upper]
    else:
        lower, upper = max(a, b), min(a, b)            # limits [-lower, -upper]
    return dict(sl=sl, su=su, lower=lower, upper=upper, K=draw(st.sampled_from([0.5, 1.0, 2.5])), R=draw(st.sampled_from([1.0, 2.0, 0.4])),
                u=draw(st.sampled_from([-4.0, -1.2, -0.6, -0.1, 0.0, 0.25, 0.8, 1.1, 5.0])))


def gain_limiter_case(ctx, c):
    from . import c18
    from ..oracle import pyeval
    key = 'GL_%d_%d' % (c['sl'], c['su'])
    if key not in c18.BLOCKS:
        sl, su = c['sl'], c['su']
        c18.BLOCKS[key] = dict(cls='GainLimiter', params=['K', 'R', 'lower', 'upper'], H=None,
                               kw=lambda m, sl=sl, su=su: dict(u=m.u, K=m.K, R=m.R, lower=m.lower, upper=m.upper, sign_lower=sl, sign_upper=su))
    model = c18.harness_model(key)
    d = model.discrete['B_lim']
    x = c['K'] * c['u']
    saved = (d.u, d.lower, d.upper)
    d.u, d.lower, d.upper = Holder([x], 'B_x'), Holder([c['lower']], 'lower'), Holder([c['upper']], 'upper')
    try:
        d.list2array(1)
        d.check_var()
        flags = {nm: float(np.asarray(getattr(d, f)).ravel()[0]) for nm, f in zip(d.get_names(), d.export_flags)}
    finally:
        d.u, d.lower, d.upper = saved
    ns = dict(K=c['K'], R=c['R'], lower=c['lower'], upper=c['upper'], u=c['u'], B_x=x, B_y=0.0)
    ns.update(flags)
    y = float(np.real(pyeval.evaluate(model.cache.all_vars['B_y'].e_str, pyeval.Namespace(ns))))       # e_str is (value - B_y)
    y0 = float(np.real(pyeval.evaluate(model.cache.all_vars['B_y'].v_str, pyeval.Namespace(ns))))
    lo, up = c['sl'] * c['lower'], c['su'] * c['upper']
    want = c['R'] * min(max(x, lo), up)
    ctx.count('gain_limiter:signs=%d,%d:%s' % (c['sl'], c['su'], 'lower' if x <= lo else 'upper' if x >= up else 'inside'))
    if abs(y - want) > 1e-12 * (1 + abs(want)) or abs(y0 - want) > 1e-12 * (1 + abs(want)):
        ctx.fail('limited_block_output_wrong', dict(case=c, output=y, initial_value=y0, documented=want, limits=[lo, up], flags=flags),
                 sig=dict(block='GainLimiter', signs=[c['sl'], c['su']]))
    if x <= lo or x >= up:
        ctx.nontrivial(c, sample=dict(c, output=y, documented=want))


def camp_limited_output(ctx):
    def body(c):
        ctx.evaluated()
        gain_limiter_case(ctx, c)
    drive(ctx, gain_limiter_cases(), body, 150 if ctx.tier == 'quick' else 2000, name='limited_output', shrink=True)


CAMPAIGNS = {
    'limited_output': dict(fn=camp_limited_output, shards=dict(quick=1, thorough=2)),
    'memoryless': dict(fn=camp_memoryless, shards=dict(quick=2, thorough=8)),
    'history': dict(fn=camp_history, shards=dict(quick=4, thorough=8)),
    'simulation': dict(fn=camp_sim, shards=dict(quick=10, thorough=16)),
}


def replay(ctx, rec):
    if isinstance(rec.get('case'), dict) and 'sl' in rec['case']:
        return gain_limiter_case(ctx, rec['case'])
    c = rec['case']
    if 'kind' in c:
        limiter_case(ctx, c)
    elif 'base' in c:
        sim_case(ctx, c)
    else:
        replay_history(ctx, c['history'])


def replay_history(ctx, hist):
    class M(HistoryMachine):
        pass
    M.ctx = ctx
    m = M.__new__(M)
    m.hist, m.H, m.t, m.comp, m.kind, m.nrewind, m.nsame, m.just_rewound, m.sample = [], [], 0.0, None, None, 0, 0, False, None
    for step in hist:
        if step[0] == 'init':
            _, kind, par, tau, u0 = step
            m.do_setup(kind, par, tau, u0)
        elif step[0] == 'advance':
            m.hist.append(step)
            m.t = round(m.t + step[1], 10)
            m.call(m.t, step[2], 'advance')
        elif step[0] == 'same_time':
            m.hist.append(step)
            m.nsame += 1
            m.call(m.t, step[1], 'same')
        elif step[0] == 'rewind':
            tprev = m.H[-2][0]
            m.t = round(tprev + step[1] * (m.H[-1][0] - tprev), 10)
            m.hist.append(step)
            m.nrewind += 1
            m.call(m.t, step[2], 'rewind')
