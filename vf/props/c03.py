"""C03 - Jacobians are the exact residual derivatives, stored at the right addresses."""
import numpy as np
from hypothesis import strategies as st

from .. import fab, build
from ..oracle import pyeval
from ..runner import drive
from . import c02

EXHAUSTIVE = True
RULE = ("(a) every shipped model (exhaustive) x generated argument points: the model's own "
        "store_sparse_pattern()/j_update() triplets, scattered to synthetic addresses, against Richardson central "
        "differences of the *declared* equation strings evaluated by the independent Python evaluator; completeness "
        "(every non-zero finite-difference entry has a pattern slot) and the reserved diag_eps constants. "
        "(b) assembled systems (stock dynamic cases and generated networks) at several operating points "
        "(after power flow, after dynamic initialisation, inside/after a disturbed run, after a snapshot save/load followed by further simulation, after outages; ipadd on/off): "
        "finite differences of the routine's own residual map against dae.fx/fy/gx/gy, pattern constancy between "
        "updates, islanded-bus patch. Non-trivial: (a) a (model, equation, variable) entry whose derivative is "
        "non-constant over the sampled points; (b) a (system, point) pair with a limiter active, a device offline or "
        "a state away from the initial equilibrium. Distinct by those tuples.")
ASSUMPTIONS = [
    "Columns where one-sided differences disagree (a limiter/piecewise kink inside the stencil) are skipped and counted.",
    "Closed-form rule: rows depending on VarService / v_numeric services / non-flag discrete outputs are compared with those frozen (assembled level) and are not covered by declared strings (model level).",
    "Hand-written numeric Jacobian hooks (j_numeric) have no declared equation and are outside (a); they are inside (b).",
]

N = c02.N


def model_jacobian_case(ctx, case):
    ss = fab.bare_system()
    mname = case['model']
    model = ss.models[mname]
    arrs = c02.to_arrays(model, case['values'])
    subs = {name: inst.v_str for name, inst in model.services_subs.items() if inst.v_str is not None}
    xnames = list(model.cache.states_and_ext.keys())
    ynames = list(model.cache.algebs_and_ext.keys())
    allv = xnames + ynames
    if not allv:
        return
    nx, ny = len(xnames) * N, len(ynames) * N

    # ---- code under test: pattern + values through the model's own methods ------------------
    fab.install(model, arrs, N)
    saved_flags = (model.flags.address, model.flags.j_num)
    blocks = [(b, b.flags.j_num) for b in model.blocks.values()]
    saved_a = {}
    try:
        model.flags.address = True
        model.flags.j_num = False
        for b, _ in blocks:
            b.flags.j_num = False
        for k, nm in enumerate(xnames):
            v = model.cache.all_vars[nm]
            saved_a[nm] = (v.a, getattr(v, 'n', None))
            v.a = np.arange(k * N, (k + 1) * N)
        for k, nm in enumerate(ynames):
            v = model.cache.all_vars[nm]
            saved_a[nm] = (v.a, getattr(v, 'n', None))
            v.a = np.arange(k * N, (k + 1) * N)
        for nm in allv:
            try:
                model.cache.all_vars[nm].n = N
            except Exception:
                pass
        model.store_sparse_pattern()
        with np.errstate(all='ignore'):
            model.j_update()
        dims = dict(f=nx, g=ny, x=nx, y=ny)
        J = {jn: np.zeros((dims[jn[0]], dims[jn[1]])) for jn in ('fx', 'fy', 'gx', 'gy')}
        P = {jn: np.zeros((dims[jn[0]], dims[jn[1]]), dtype=bool) for jn in J}
        for jn in J:
            for suffix in ('', 'c'):
                for ii, jj, vv in model.triplets.zip_ijv(jn + suffix):
                    np.add.at(J[jn], (np.asarray(ii), np.asarray(jj)), np.asarray(vv, dtype=float))
                    P[jn][np.asarray(ii), np.asarray(jj)] = True
    finally:
        model.flags.address, model.flags.j_num = saved_flags
        for b, f in blocks:
            b.flags.j_num = f
        for nm, (a, n) in saved_a.items():
            model.cache.all_vars[nm].a = a
        model.triplets.clear_ijv()
        fab.uninstall(model)

    # expected diag_eps constants
    eps_sys = ss.config.diag_eps
    expect_eps = {}
    for nm in allv:
        v = model.cache.all_vars[nm]
        if v.diag_eps in (0.0, None, False):
            continue
        expect_eps[nm] = eps_sys if v.diag_eps is True else float(v.diag_eps)

    # ---- oracle: finite differences of the declared strings ----------------------------------
    def residuals(ns_vals):
        ns = pyeval.Namespace(dict(ns_vals), subs)
        out = {}
        for nm in allv:
            v = model.cache.all_vars[nm]
            if v.e_str is None:
                out[nm] = np.zeros(N)
            else:
                out[nm] = np.broadcast_to(np.asarray(pyeval.evaluate(v.e_str, ns), dtype=float), (N,)).copy()
        return out

    with np.errstate(all='ignore'):
        f0 = residuals(arrs)
        for col in allv:
            x0 = np.asarray(arrs[col], dtype=float)
            h = 1e-6 * np.maximum(1.0, np.abs(x0))
            vals = {}
            for mult in (1, -1, 2, -2):
                a2 = dict(arrs)
                a2[col] = x0 + mult * h
                vals[mult] = residuals(a2)
            cj = allv.index(col)
            col_is_x = col in xnames
            ccode = 'x' if col_is_x else 'y'
            cbase = (xnames.index(col) if col_is_x else ynames.index(col)) * N
            for row in allv:
                d1 = (vals[1][row] - vals[-1][row]) / (2 * h)
                d2 = (vals[2][row] - vals[-2][row]) / (4 * h)
                d = (4 * d1 - d2) / 3.0
                fwd = (vals[1][row] - f0[row]) / h
                bwd = (f0[row] - vals[-1][row]) / h
                kink = (np.abs(fwd - bwd) > 1e-3 * (1 + np.abs(d))) | ~np.isfinite(d) | ~np.isfinite(f0[row])
                kink |= np.abs(d1 - d2) > 1e-3 * (1 + np.abs(d))      # break-point inside the wider (2h) stencil
                # rounding guard: the difference quotient carries eps*|f|/h of noise; where that exceeds the
                # comparison bound (huge residual values such as the 1e8 penalty terms) the entry is not judged
                big = np.maximum.reduce([np.abs(vals[m_][row]) for m_ in (1, -1, 2, -2)])
                illc = 2.3e-16 * big / h > 2e-6 * (1 + np.abs(d))
                ctx.count('entries:illconditioned_skipped', int((illc & ~kink).sum()))
                kink = kink | illc
                row_is_x = row in xnames
                rcode = 'f' if row_is_x else 'g'
                rbase = (xnames.index(row) if row_is_x else ynames.index(row)) * N
                jn = rcode + ccode
                got = J[jn][rbase + np.arange(N), cbase + np.arange(N)].copy()
                has = P[jn][rbase + np.arange(N), cbase + np.arange(N)]
                exp = d.copy()
                if row == col and row in expect_eps:
                    exp = exp + expect_eps[row]
                ok = np.abs(got - exp) <= 2e-5 * (1 + np.abs(exp)) + 1e-7
                if case['mode'] != 'positive':
                    # a closed-form derivative may be singular (0*inf) at points with exact zeros where the
                    # function itself is smooth (f**bp at f=0, sqrt at 0); only judged in the zero-free mode
                    sing = ~np.isfinite(got)
                    ctx.count('entries:generated_singular_skipped', int((sing & ~kink).sum()))
                    kink = kink | sing
                bad = ~kink & ~ok
                ctx.count('entries:kink_skipped', int(kink.sum()))
                if bad.any():
                    k = int(np.argmax(bad))
                    clause = 'pattern_missing_entry' if not has[k] else 'jacobian_entry_differs'
                    ctx.fail(clause, dict(model=mname, equation=row, variable=col, device=k, generated=float(got[k]),
                                          finite_difference=float(exp[k]), e_str=str(model.cache.all_vars[row].e_str)[:200]),
                             sig=dict(model=mname, equation=row, variable=col))
                nz = ~kink & (np.abs(d) > 1e-9)
                if nz.any():
                    ctx.count('entries:nonzero_checked', int(nz.sum()))
                    if np.ptp(d[~kink]) > 1e-9 or case['mode'] != 'palette':
                        ctx.nontrivial(dict(m=mname, r=row, c=col),
                                       sample=dict(model=mname, equation=row, variable=col, derivative=float(d[~kink][0])))
    # off-diagonal-in-device entries must be empty: device k's equation depends only on device k
    for jn in J:
        M = J[jn].copy()
        nr, nc = M.shape
        for rb in range(0, nr, N):
            for cb in range(0, nc, N):
                blk = M[rb:rb + N, cb:cb + N]
                off = blk[~np.eye(N, dtype=bool)]
                if np.any(off != 0):
                    ctx.fail('cross_device_entry', dict(model=mname, jac=jn), sig=dict(model=mname, jac=jn))


def camp_model_jac(ctx):
    names = c02.model_names()
    mine = [m for i, m in enumerate(names) if i % ctx.nshards == ctx.shard]
    npts = 25 if ctx.tier == 'quick' else 400
    ctx.extra['models_covered'] = {}
    for m in mine:
        def body(case):
            ctx.evaluated()
            ctx.count('mode:' + case['mode'])
            model_jacobian_case(ctx, case)
        drive(ctx, c02.points(m), body, npts, name='jac-' + m, chunk=50, shrink=False)
        ctx.extra['models_covered'][m] = npts
        if ctx.violations:
            break


CAMPAIGNS = {
    'model_jac': dict(fn=camp_model_jac, shards=dict(quick=16, thorough=16)),
}


def replay(ctx, rec):
    case = rec['case']
    if 'values' in case:
        model_jacobian_case(ctx, case)
    else:
        assembled_case(ctx, case)


# =============================================================================================
# (b) assembled level
# =============================================================================================

def dyn_stock_cases(max_bytes=None):
    import os
    out = []
    for p in build.stock_cases(('.xlsx', '.json')):
        rel = os.path.relpath(p, build.cases_root())
        if max_bytes and os.path.getsize(p) > max_bytes:
            continue
        out.append(rel)
    return out


def dense(spm):
    from kvxopt import matrix
    return np.array(matrix(spm))


def pattern(spm):
    return set(zip([int(i) for i in spm.I], [int(j) for j in spm.J]))


def _same_bus(ss, ya, yb):
    """True when the two algebraic addresses are the angle / magnitude of one bus."""
    a = [int(k) for k in ss.Bus.a.a]
    v = [int(k) for k in ss.Bus.v.a]
    for k in range(ss.Bus.n):
        if {ya, yb} <= {a[k], v[k]}:
            return True
    return False


def assembled_case(ctx, case):
    import os
    path = os.path.join(build.cases_root(), case['path'])
    rc = {'System': dict(ipadd=case['ipadd']), 'PFlow': dict(report=0), 'TDS': dict(no_tqdm=1, tf=case.get('tf', 1.0))}
    try:
        ss = build.load_case(path, rc=rc)
    except Exception as e:
        ctx.count('assembled:load_error')
        return
    if ss is None or not ss.is_setup:
        ctx.count('assembled:load_error')
        return
    dae = ss.dae
    if case.get('outage') is not None and ss.Line.n > 0:
        k = case['outage'] % ss.Line.n
        ss.Line.alter('u', ss.Line.idx.v[k], 0)
        ctx.count('assembled:with_outage')
    point = case['point']
    try:
        if point == 'pflow_init':
            ss.PFlow.init()
            models, routine = ss.PFlow.models, ss.PFlow
        else:
            if not ss.PFlow.run():
                ctx.count('assembled:pflow_failed')
                return
            models, routine = ss.PFlow.models, ss.PFlow
            if point in ('tds_init', 'tds_run', 'tds_restored'):
                ss.TDS.init()
                models, routine = ss.exist.pflow_tds, ss.TDS
                if point == 'tds_run':
                    ok = ss.TDS.run()
                    if not ok:
                        ctx.count('assembled:tds_failed')
                        return
                if point == 'tds_restored':
                    # the system is saved as a snapshot half-way, loaded again, and the restored object simulated on:
                    # its matrices must follow the moving operating point like those of a system that was never stored
                    from andes.utils.snapshot import load_ss, save_ss
                    from .. import sandbox
                    tf = float(ss.TDS.config.tf)
                    ss.TDS.config.tf = tf / 2
                    if not ss.TDS.run():
                        ctx.count('assembled:tds_failed')
                        return
                    pkl = os.path.join(sandbox.scratch_dir('c03'), 'snap-%d.pkl' % os.getpid())
                    save_ss(pkl, ss)
                    ss = load_ss(pkl)
                    os.remove(pkl)
                    ss.TDS.config.tf = tf
                    if not ss.TDS.run():
                        ctx.count('assembled:tds_failed')
                        return
                    models, routine = ss.exist.pflow_tds, ss.TDS
    except Exception as e:
        ctx.count('assembled:routine_raised:' + type(e).__name__)
        return
    dae = ss.dae
    n, m = dae.n, dae.m
    if n + m > case.get('max_size', 700):
        ctx.count('assembled:too_large')
        return
    ctx.count('assembled:point=' + point)

    # ---- code under test: flags at this point, then Jacobian --------------------------------
    if routine is ss.TDS:
        routine.fg_update(models)
    else:
        routine.fg_update()
    ss.j_update(models)
    Jm = dict(fx=dense(dae.fx) if n else np.zeros((0, 0)), fy=dense(dae.fy) if n else np.zeros((0, m)),
              gx=dense(dae.gx) if n else np.zeros((m, 0)), gy=dense(dae.gy))
    pat0 = {k: pattern(getattr(dae, k)) for k in ('fx', 'fy', 'gx', 'gy')}
    x0, y0 = dae.x.copy(), dae.y.copy()
    pegged = set()
    for item in ss.antiwindups:
        for key, _, _ in item.x_set:
            pegged.update(int(k) for k in np.atleast_1d(key))
    ctx.count('assembled:pegged_states', len(pegged))

    def resid(x, y):
        dae.x[:] = x
        dae.y[:] = y
        ss.vars_to_models()
        dae.clear_fg()
        with np.errstate(all='ignore'):
            ss.f_update(models)
            ss.g_update(models)
            ss.fg_to_dae()
        return np.concatenate([dae.f, dae.g])

    r0 = resid(x0, y0)
    xy0 = np.concatenate([x0, y0])
    Jfull = np.block([[Jm['fx'], Jm['fy']], [Jm['gx'], Jm['gy']]]) if n else Jm['gy']
    patfull = np.zeros((n + m, n + m), dtype=bool)
    for key, (ro, co) in dict(fx=(0, 0), fy=(0, n), gx=(n, 0), gy=(n, n)).items():
        for (i, j) in pat0[key]:
            patfull[ro + i, co + j] = True
    nkink = nbad = 0
    active = 0
    bus_addr = set(int(a) for a in list(ss.Bus.a.a) + list(ss.Bus.v.a))
    for j in range(n + m):
        if j < n and j in pegged:
            continue
        h = 1e-6 * max(1.0, abs(xy0[j]))
        xp, xm = xy0.copy(), xy0.copy()
        xp[j] += h
        xm[j] -= h
        rp = resid(xp[:n], xp[n:])
        rm = resid(xm[:n], xm[n:])
        d = (rp - rm) / (2 * h)
        fwd = (rp - r0) / h
        bwd = (r0 - rm) / h
        kink = (np.abs(fwd - bwd) > 1e-3 * (1 + np.abs(d))) | ~np.isfinite(d)
        big = np.maximum(np.abs(rp), np.abs(rm))
        kink |= 2.3e-16 * big / h > 2e-6 * (1 + np.abs(d))
        for p in pegged:
            kink[p] = True
        nkink += int(kink.sum())
        got = Jfull[:, j]
        bad = ~kink & (np.abs(got - d) > 2e-5 * (1 + np.abs(d)) + 2e-7)
        if bad.any():
            # second opinion at a 100x larger step: generated code may add a small term to a 1e8-scale constant
            # (e.g. `x + 1e8 - 1e8*z` with z = 1), which quantises the residual at ~1e-8 and makes the small-step
            # difference quotient noisy; a genuine Jacobian error shows at both step sizes
            h2 = 100 * h
            xp2, xm2 = xy0.copy(), xy0.copy()
            xp2[j] += h2
            xm2[j] -= h2
            rp2 = resid(xp2[:n], xp2[n:])
            rm2 = resid(xm2[:n], xm2[n:])
            d2 = (rp2 - rm2) / (2 * h2)
            kink2 = (np.abs((rp2 - r0) / h2 - (r0 - rm2) / h2) > 1e-2 * (1 + np.abs(d2))) | ~np.isfinite(d2)
            agree2 = np.abs(got - d2) <= 2e-4 * (1 + np.abs(d2)) + 2e-6
            ctx.count('assembled:second_opinion_cleared', int((bad & (agree2 | kink2)).sum()))
            bad = bad & ~agree2 & ~kink2
        if bad.any():
            i = int(np.argmax(np.where(bad, np.abs(got - d), 0)))
            rname = dae.xy_name[i] if i < len(dae.xy_name) else str(i)
            cname = dae.xy_name[j] if j < len(dae.xy_name) else str(j)
            clause = 'assembled_pattern_missing_entry' if not patfull[i, j] else 'assembled_jacobian_differs'
            isl_rows = set(int(a) + n for a in list(ss.Bus.islanded_a) + list(ss.Bus.islanded_v)) \
                if ss.Bus.n_islanded_buses else set()
            ctx.fail(clause, dict(case=case, equation=rname, variable=cname, jacobian=float(got[i]),
                                  finite_difference=float(d[i]), row_of_islanded_bus=bool(i in isl_rows)),
                     sig=dict(equation=rname.split()[0], variable=cname.split()[0], ipadd=int(case['ipadd']),
                              column_kind=('same_bus' if j in isl_rows and _same_bus(ss, i - n, j - n) else
                                           'bus' if j >= n and (j - n) in bus_addr else 'device'),
                              row_of_islanded_bus=bool(i in isl_rows and d[i] == 0.0)))
        active += int((~kink & (np.abs(d) > 1e-9)).sum())
    resid(x0, y0)
    ctx.count('assembled:kink_or_pegged_skipped', nkink)
    ctx.count('assembled:entries_checked', active)

    # ---- pattern never changes between updates -------------------------------------------------
    dae.x[:] = x0 * (1 + 1e-3) + 1e-4
    dae.y[:] = y0 * (1 - 1e-3) - 1e-4
    ss.vars_to_models()
    if routine is ss.TDS:
        routine.fg_update(models)
    else:
        routine.fg_update()
    ss.j_update(models)
    for key in pat0:
        if pattern(getattr(dae, key)) != pat0[key]:
            ctx.fail('pattern_changed_between_updates', dict(case=case, jac=key, before=len(pat0[key]),
                                                             after=len(pattern(getattr(dae, key)))),
                     sig=dict(jac=key, ipadd=case['ipadd']))
    # ---- the stored pattern (what restore_sparse rebuilds the matrices from) covers every entry ---------------
    for key in ('fx', 'fy', 'gx', 'gy'):
        try:
            stored = set(zip((int(i) for i in dae.triplets.ijac[key]), (int(j) for j in dae.triplets.jjac[key])))
        except Exception:
            continue
        tpl = dae.tpl.get(key) if hasattr(dae, 'tpl') else None
        tpl_pat = pattern(tpl) if tpl is not None else stored
        mat = dense(getattr(dae, key)) if getattr(dae, key).size[0] * getattr(dae, key).size[1] else np.zeros((0, 0))
        nz = set(zip(*(int_arr.tolist() for int_arr in np.nonzero(mat)))) if mat.size else set()
        missing = sorted(nz - stored)
        missing_tpl = sorted(nz - set(tpl_pat))
        if missing or missing_tpl:
            i, j = (missing or missing_tpl)[0]
            ro, co = (0 if key[0] == 'f' else n), (0 if key[1] == 'x' else n)
            ctx.fail('stored_pattern_lacks_a_nonzero_entry',
                     dict(case=case, jac=key, row=dae.xy_name[ro + i], col=dae.xy_name[co + j], value=float(mat[i, j]),
                          missing_in_triplets=len(missing), missing_in_template=len(missing_tpl)), sig=dict(jac=key))
    # ---- islanded-bus patch ----------------------------------------------------------------------
    if ss.Bus.n_islanded_buses:
        ctx.count('assembled:with_islanded_bus')
        gy = dense(dae.gy)
        for a in list(ss.Bus.islanded_a) + list(ss.Bus.islanded_v):
            a = int(a)
            row = gy[a].copy()
            if abs(row[a] - ss.config.diag_eps) > 1e-15:
                ctx.fail('islanded_bus_diagonal', dict(case=case, addr=a, value=float(row[a])), sig=dict())
    limiter_active = len(pegged) > 0
    offline = any(np.any(np.asarray(mdl.u.v) == 0) for mdl in models.values() if mdl.n > 0 and hasattr(mdl, 'u'))
    moved = point in ('tds_run', 'tds_restored')
    if limiter_active or offline or moved or case.get('outage') is not None:
        ctx.nontrivial(dict(path=case['path'], point=point, outage=case.get('outage'), ipadd=case['ipadd']),
                       sample=dict(case=case, n=n, m=m, entries_checked=active, pegged=len(pegged)))


@st.composite
def assembled_cases(draw, paths):
    return dict(path=draw(st.sampled_from(paths)),
                point=draw(st.sampled_from(['pflow_init', 'pflow_sol', 'tds_init', 'tds_run', 'tds_run', 'tds_restored'])),
                ipadd=draw(st.sampled_from([1, 1, 0])),
                tf=draw(st.sampled_from([0.1, 0.5, 1.1, 2.05])),
                outage=draw(st.one_of(st.none(), st.none(), st.integers(0, 200))))


def camp_assembled(ctx):
    quick = ctx.tier == 'quick'
    paths = dyn_stock_cases(max_bytes=120000 if quick else 600000)
    paths = [p for p in paths if not p.startswith(('GBnetwork', 'wecc', 'nordic', 'EI', 'ei', 'npcc') if quick else ('EI', 'ei'))]

    def body(case):
        ctx.evaluated()
        assembled_case(ctx, case)
    if ctx.shard < 2 and 'kundur/kundur_full.xlsx' in paths:
        case = dict(path='kundur/kundur_full.xlsx', point='tds_restored', ipadd=1 - ctx.shard, tf=2.05, outage=None)
        ctx.current_case = case
        ctx.count('assembled:anchor_restored_snapshot')
        body(case)
    drive(ctx, assembled_cases(paths), body, 4 if quick else 40, name='assembled', shrink=False,
          budget_s=150 if quick else 1500)


CAMPAIGNS['assembled'] = dict(fn=camp_assembled, shards=dict(quick=16, thorough=16))
