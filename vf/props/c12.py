"""C12 - island detection and status propagation match the network graph."""
import copy

import numpy as np
from hypothesis import strategies as st

from .. import build
from ..runner import drive

RULE = ("Generated multigraphs on 1..12 buses over Line and Jumper with drawn in-service flags, 0..3 Slack with drawn "
        "placement/status, PV, loads, shunts and measurement devices on drawn buses; classes: everything isolated, "
        "slack disconnected, many islands, devices of two models of one group on one bus. Oracle: union-find "
        "components/degrees computed from the input rows (island_sets, islanded_buses, islands partition, "
        "nosw/msw classification); neutralisation: the same network with its isolated buses deleted must have the "
        "same convergence verdict and the same voltages (metamorphic), isolated-bus residuals are 0 and their a, v "
        "stay at the initialised values; bus switching: after Bus u->0 (one or several, via set/alter) and a "
        "routine init, the set of devices whose status changed equals the set referencing those buses through the "
        "documented dependent groups. Plus a simulation clause: Toggle events on lines re-evaluate the islands. "
        "Non-trivial = pattern with >= 2 components or >= 1 isolated bus (or >= 1 bus switched off); distinct by the "
        "pattern JSON.")
ASSUMPTIONS = [
    "No self-loop branches (bus1 == bus2) are generated.",
    "Dependent groups of a bus are those documented in andes/core/connman.py (ACLine, ACShort, FreqMeasurement, StaticGen, StaticLoad, StaticShunt ...).",
]


@st.composite
def patterns(draw, max_buses=12):
    nb = draw(st.integers(1, max_buses))
    style = draw(st.sampled_from(['random', 'random', 'sparse', 'all_isolated', 'chain']))
    buses = list(range(1, nb + 1))
    idx_str = draw(st.booleans())

    def b(k):
        return ('B%d' % k) if idx_str else k
    lines, jumpers = [], []
    if nb >= 2 and style != 'all_isolated':
        if style == 'chain':
            pairs = [(i, i + 1) for i in range(1, nb)]
        else:
            npairs = draw(st.integers(0, nb if style == 'sparse' else 2 * nb))
            pairs = []
            for _ in range(npairs):
                a = draw(st.integers(1, nb))
                c = draw(st.integers(1, nb - 1))
                if c >= a:
                    c += 1
                pairs.append((a, c))
        for k, (a, c) in enumerate(pairs):
            u = draw(st.sampled_from([1, 1, 1, 0]))
            if draw(st.integers(0, 5)) == 0:
                jumpers.append(dict(idx='J%d' % k, bus1=b(a), bus2=b(c), u=u))
            else:
                lines.append(dict(idx='L%d' % k, bus1=b(a), bus2=b(c), u=u, x=0.1, r=0.01))
    elif nb >= 2 and draw(st.booleans()):
        lines.append(dict(idx='L0', bus1=b(1), bus2=b(2), u=0, x=0.1, r=0.01))
    nsl = draw(st.integers(0, 3))
    slacks = [dict(idx='S%d' % k, bus=b(draw(st.integers(1, nb))), u=draw(st.sampled_from([1, 1, 0])), v0=1.0, a0=0.0)
              for k in range(nsl)]
    # mostly at most one online slack per bus (two on one bus make the island over-determined at the device level: such
    # patterns are classified - 'several' - but not solved); in a labelled minority duplicates on one bus are kept
    keep_dup = draw(st.integers(0, 2)) == 0
    seen = set()
    for s in slacks:
        if s['u'] and s['bus'] in seen and not keep_dup:
            s['u'] = 0
        if s['u']:
            seen.add(s['bus'])
    pvs, pqs, shunts, shsw, bfs = [], [], [], [], []
    for k in buses:
        if draw(st.integers(0, 4)) == 0 and b(k) not in seen:
            pvs.append(dict(idx='G%d' % k, bus=b(k), u=1, p0=0.05, v0=1.0))
        for j in range(draw(st.sampled_from([0, 1, 1, 2]))):
            pqs.append(dict(idx='D%d_%d' % (k, j), bus=b(k), u=1, p0=0.05, q0=0.01))
        if draw(st.integers(0, 3)) == 0:
            shunts.append(dict(idx='H%d' % k, bus=b(k), u=1, b=0.02))
        if draw(st.integers(0, 4)) == 0:
            shsw.append(dict(idx='W%d' % k, bus=b(k), u=1, gs='[0]', bs='[0.01]', ns='[1]'))
        if draw(st.integers(0, 5)) == 0:
            bfs.append(dict(idx='F%d' % k, bus=b(k), u=1))
    off = []
    if draw(st.booleans()):
        noff = draw(st.integers(1, min(3, nb)))
        off = sorted(set(draw(st.integers(1, nb)) for _ in range(noff)))
    return dict(nb=nb, idx_str=idx_str, buses=[b(k) for k in buses], lines=lines, jumpers=jumpers, slacks=slacks, pvs=pvs,
                pqs=pqs, shunts=shunts, shsw=shsw, busfreqs=bfs, style=style,
                buses_off=[b(k) for k in off], off_via=draw(st.sampled_from(['set', 'alter'])),
                off_batch=draw(st.booleans()))


def build_system(p, drop_buses=()):
    ss = build.new_system({'PFlow': dict(report=0)})
    drop = set(drop_buses)
    for bi in p['buses']:
        if bi not in drop:
            ss.add('Bus', dict(idx=bi, Vn=110.0))
    for ln in p['lines']:
        if ln['bus1'] in drop or ln['bus2'] in drop:
            continue
        ss.add('Line', dict(idx=ln['idx'], bus1=ln['bus1'], bus2=ln['bus2'], u=ln['u'], x=ln['x'], r=ln['r'],
                            Vn1=110.0, Vn2=110.0))
    for j in p['jumpers']:
        if j['bus1'] in drop or j['bus2'] in drop:
            continue
        ss.add('Jumper', dict(idx=j['idx'], bus1=j['bus1'], bus2=j['bus2'], u=j['u']))
    for key, model, fields in (('slacks', 'Slack', ['idx', 'bus', 'u', 'v0', 'a0']), ('pvs', 'PV', ['idx', 'bus', 'u', 'p0', 'v0']),
                               ('pqs', 'PQ', ['idx', 'bus', 'u', 'p0', 'q0']), ('shunts', 'Shunt', ['idx', 'bus', 'u', 'b']),
                               ('shsw', 'ShuntSw', ['idx', 'bus', 'u', 'gs', 'bs', 'ns']),
                               ('busfreqs', 'BusFreq', ['idx', 'bus', 'u'])):
        for d in p[key]:
            if d['bus'] in drop:
                continue
            row = {f: d[f] for f in fields}
            row['Vn'] = 110.0
            if model == 'BusFreq':
                row.pop('Vn')
            ss.add(model, row)
    ss.setup()
    return ss


def graph(p, buses_off=()):
    """Union-find over in-service series devices. Returns (components as frozensets of positions, degree list)."""
    pos = {bi: k for k, bi in enumerate(p['buses'])}
    n = len(pos)
    parent = list(range(n))

    def find(a):
        while parent[a] != a:
            parent[a] = parent[parent[a]]
            a = parent[a]
        return a
    deg = [0] * n
    off = set(buses_off)
    for e in p['lines'] + p['jumpers']:
        if e['u'] and e['bus1'] not in off and e['bus2'] not in off:
            a, c = pos[e['bus1']], pos[e['bus2']]
            deg[a] += 1
            deg[c] += 1
            parent[find(a)] = find(c)
    comps = {}
    for k in range(n):
        comps.setdefault(find(k), set()).add(k)
    return [frozenset(c) for c in comps.values()], deg, pos


def check_islands(ctx, p, ss, buses_off=(), label=''):
    comps, deg, pos = graph(p, buses_off)
    iso = sorted(k for k in range(len(deg)) if deg[k] == 0)
    multi = set(c for c in comps if len(c) >= 2)
    got_sets = [frozenset(int(x) for x in s) for s in ss.Bus.island_sets]
    got_iso = sorted(int(x) for x in ss.Bus.islanded_buses)
    sig = dict(all_isolated=len(multi) == 0, label=label)
    if got_iso != iso:
        ctx.fail('isolated_buses_wrong', dict(pattern=p, got=got_iso, expected=iso), sig=sig)
    if set(got_sets) != multi or len(got_sets) != len(multi):
        ctx.fail('island_sets_wrong', dict(pattern=p, got=[sorted(s) for s in got_sets], expected=[sorted(s) for s in multi]), sig=sig)
    got_islands = [frozenset(int(x) for x in s) for s in ss.Bus.islands]
    want_islands = set(multi) | set(frozenset([k]) for k in iso)
    if set(got_islands) != want_islands or len(got_islands) != len(want_islands):
        ctx.fail('islands_not_a_partition', dict(pattern=p, got=[sorted(s) for s in got_islands],
                                                 expected=[sorted(s) for s in want_islands]), sig=sig)
    # slack classification (by index into island_sets)
    off = set(buses_off)
    for k, s in enumerate(got_sets):
        n_on = sum(1 for sl in p['slacks'] if sl['u'] and sl['bus'] not in off and pos[sl['bus']] in s)
        if n_on >= 2 and len(set(sl['bus'] for sl in p['slacks'] if sl['u'] and sl['bus'] not in off and pos[sl['bus']] in s)) == 1:
            ctx.count('pattern:several_slacks_on_one_bus')
        in_nosw = k in ss.Bus.nosw_island
        in_msw = k in ss.Bus.msw_island
        if in_nosw != (n_on == 0) or in_msw != (n_on >= 2):
            ctx.fail('slack_classification_wrong', dict(pattern=p, island=sorted(s), online_slacks=n_on,
                                                        reported_none=in_nosw, reported_multiple=in_msw), sig=sig)
    return comps, iso, pos


def pattern_case(ctx, p):
    ctx.count('style:' + p['style'])
    ss = build_system(p)
    try:
        ss.connectivity(info=False)
    except Exception as e:
        comps, deg, _ = graph(p)
        ctx.fail('connectivity_raised', dict(pattern=p, error='%s: %s' % (type(e).__name__, e)),
                 sig=dict(error=type(e).__name__, all_isolated=all(d == 0 for d in deg)))
        return
    comps, iso, pos = check_islands(ctx, p, ss)
    ncomp_multi = sum(1 for c in comps if len(c) >= 2)
    if iso:
        ctx.count('pattern:has_isolated_bus')
    if ncomp_multi >= 2:
        ctx.count('pattern:several_islands')
    # ---- neutralisation (metamorphic): delete the isolated buses and compare -------------------------
    well = all(sum(1 for sl in p['slacks'] if sl['u'] and pos[sl['bus']] in c) == 1 for c in comps if len(c) >= 2)
    if iso and ncomp_multi >= 1 and well:
        try:
            okA = ss.PFlow.run()
            raisedA = None
        except Exception as e:
            okA, raisedA = False, '%s: %s' % (type(e).__name__, e)
        iso_idx = [p['buses'][k] for k in iso]
        ssB = build_system(p, drop_buses=iso_idx)
        try:
            okB = ssB.PFlow.run()
        except Exception as e:
            okB = False
        ctx.count('neutralise:compared')
        if bool(okA) != bool(okB):
            ctx.fail('isolated_bus_changes_convergence', dict(pattern=p, with_isolated=bool(okA), without=bool(okB), raised=raisedA),
                     sig=dict(with_isolated=bool(okA)))
        elif okA:
            vB = {idx: (ssB.Bus.v.v[k], ssB.Bus.a.v[k]) for k, idx in enumerate(ssB.Bus.idx.v)}
            for k, idx in enumerate(ss.Bus.idx.v):
                if idx in vB:
                    if abs(ss.Bus.v.v[k] - vB[idx][0]) > 1e-7 or abs(ss.Bus.a.v[k] - vB[idx][1]) > 1e-7:
                        ctx.fail('isolated_bus_changes_solution', dict(pattern=p, bus=idx, v=[float(ss.Bus.v.v[k]), float(vB[idx][0])]), sig=dict())
            ga = ss.dae.g[ss.Bus.a.a[iso]]
            gv = ss.dae.g[ss.Bus.v.a[iso]]
            if np.any(ga != 0) or np.any(gv != 0):
                ctx.fail('isolated_bus_residual_nonzero', dict(pattern=p), sig=dict())
    if iso or ncomp_multi >= 2:
        ctx.nontrivial(dict(p=p), sample=dict(nb=p['nb'], lines=[(l['bus1'], l['bus2'], l['u']) for l in p['lines']],
                                              jumpers=[(j['bus1'], j['bus2'], j['u']) for j in p['jumpers']],
                                              slacks=[(s['bus'], s['u']) for s in p['slacks']], isolated=iso,
                                              components=[sorted(c) for c in comps]))
    # ---- bus switching ----------------------------------------------------------------------------------
    if p['buses_off']:
        bus_off_case(ctx, p)


def bus_off_case(ctx, p):
    ss = build_system(p)
    off = list(p['buses_off'])
    before = snapshot_u(ss)
    try:
        if p['off_batch'] or len(off) == 1:
            if p['off_via'] == 'set':
                ss.Bus.set('u', off, 'v', 0)
            else:
                ss.Bus.alter('u', off, 0)
        else:
            for bi in off:
                if p['off_via'] == 'set':
                    ss.Bus.set('u', bi, 'v', 0)
                else:
                    ss.Bus.alter('u', bi, 0)
        ss.PFlow.init()
    except Exception as e:
        ctx.fail('bus_off_raised', dict(pattern=p, error='%s: %s' % (type(e).__name__, str(e)[:200])),
                 sig=dict(error=type(e).__name__, n_off=len(off)))
        return
    after = snapshot_u(ss)
    changed = sorted(k for k in before if before[k] != after[k])
    offset = set(off)
    want = []
    for key, model in (('lines', 'Line'), ('jumpers', 'Jumper')):
        for d in p[key]:
            if d['u'] and (d['bus1'] in offset or d['bus2'] in offset):
                want.append('%s:%s' % (model, d['idx']))
    for key, model in (('slacks', 'Slack'), ('pvs', 'PV'), ('pqs', 'PQ'), ('shunts', 'Shunt'), ('shsw', 'ShuntSw'),
                       ('busfreqs', 'BusFreq')):
        for d in p[key]:
            if d['u'] and d['bus'] in offset:
                want.append('%s:%s' % (model, d['idx']))
    for bi in off:
        want.append('Bus:%s' % bi)
    want = sorted(set(want))
    ctx.count('busoff:cases')
    if changed != want:
        ctx.fail('bus_off_propagation_wrong', dict(pattern=p, buses_off=off, status_changed=changed, expected=want,
                                                   missing=sorted(set(want) - set(changed)), extra=sorted(set(changed) - set(want))),
                 sig=dict(missing=bool(set(want) - set(changed)), extra=bool(set(changed) - set(want))))
    try:
        check_islands(ctx, p, ss, buses_off=off, label='after_bus_off')
    except Exception:
        raise
    ctx.nontrivial(dict(p=p, off=off), sample=dict(buses_off=off, via=p['off_via'], changed=changed))


def snapshot_u(ss):
    out = {}
    for m in ('Bus', 'Line', 'Jumper', 'Slack', 'PV', 'PQ', 'Shunt', 'ShuntSw', 'BusFreq'):
        mdl = ss.models[m]
        for idx, u in zip(mdl.idx.v, mdl.u.v):
            out['%s:%s' % (m, idx)] = int(u)
    return out


def camp_patterns(ctx):
    def body(p):
        ctx.evaluated()
        pattern_case(ctx, p)
    quick = ctx.tier == 'quick'
    drive(ctx, patterns(12 if quick else 14), body, 40 if quick else 600, name='patterns', chunk=20,
          budget_s=150 if quick else 1500)


# ---- events during simulation -------------------------------------------------------------------------

@st.composite
def toggle_cases(draw):
    nline = 20   # ieee14 has 20 lines (incl. transformers)
    k = draw(st.lists(st.integers(0, nline - 1), min_size=1, max_size=3, unique=True))
    times = [float(round(draw(st.floats(0.1, 0.9)), 3)) for _ in k]
    return dict(case='ieee14/ieee14.json', lines=k, times=times, tf=1.0, mode=draw(st.sampled_from(['toggle', 'toggle', 'custom'])))


def toggle_case(ctx, c):
    import os
    ss = build.load_case(os.path.join(build.cases_root(), c['case']), rc={'TDS': dict(no_tqdm=1, tf=c['tf'], criteria=0),
                                                                            'PFlow': dict(report=0)}, setup=False)
    lidx = list(ss.Line.idx.v)
    custom = c.get('mode') == 'custom'
    if not custom:
        for j, (k, t) in enumerate(zip(c['lines'], c['times'])):
            ss.add('Toggle', dict(idx='TG%d' % j, model='Line', dev=lidx[k % len(lidx)], t=t))
    ss.setup()
    if not ss.PFlow.run():
        return
    ss.TDS.init()
    seen = []
    orig = ss.connectivity

    def spy(info=True):
        r = orig(info=info)
        seen.append((float(ss.dae.t), [frozenset(int(x) for x in s) for s in ss.Bus.island_sets],
                     sorted(int(x) for x in ss.Bus.islanded_buses)))
        return r
    ss.connectivity = spy
    try:
        if custom:
            # the documented route for perturbation files and stepwise simulation: change the status, flag a custom event
            for k, t in sorted(zip(c['lines'], c['times']), key=lambda z: z[1]):
                ss.TDS.config.tf = t
                ss.TDS.run()
                dev = lidx[k % len(lidx)]
                ss.Line.alter('u', dev, 1 - int(ss.Line.get(src='u', idx=dev, attr='v')))
                ss.TDS.custom_event = True
            ss.TDS.config.tf = c['tf']
            ss.TDS.run()
            ctx.count('toggle:custom_event_mode')
        else:
            ss.TDS.run()
    except Exception as e:
        ctx.count('toggle:run_raised_' + type(e).__name__)
    # oracle at the end state
    p = dict(buses=list(ss.Bus.idx.v),
             lines=[dict(bus1=b1, bus2=b2, u=int(u)) for b1, b2, u in zip(ss.Line.bus1.v, ss.Line.bus2.v, ss.Line.u.v)],
             jumpers=[], slacks=[dict(bus=b, u=int(u)) for b, u in zip(ss.Slack.bus.v, ss.Slack.u.v)])
    fired = sorted(t for t in c['times'] if t <= c['tf'])
    if not custom and len([s for s in seen if s[0] > 0]) < len(set(fired)):
        ctx.fail('no_recheck_after_event', dict(case=c, rechecks=[s[0] for s in seen]), sig=dict())
    if seen or custom:
        comps, deg, pos = graph(p)
        multi = set(x for x in comps if len(x) >= 2)
        iso = sorted(k for k in range(len(deg)) if deg[k] == 0)
        # what the system reports now (not what the last re-check saw: a missing re-check must show)
        sets_last = [frozenset(int(x) for x in s_) for s_ in ss.Bus.island_sets]
        iso_last = sorted(int(x) for x in ss.Bus.islanded_buses)
        if set(sets_last) != multi or iso_last != iso:
            ctx.fail('islands_after_event_wrong', dict(case=c, got=[sorted(s) for s in sets_last], got_isolated=iso_last,
                                                       expected=[sorted(s) for s in multi], expected_isolated=iso), sig=dict())
        if iso or len(multi) >= 2:
            ctx.count('toggle:split_network')
        ctx.nontrivial(dict(c=c), sample=dict(case=c, isolated=iso, n_islands=len(multi)))


def camp_toggle(ctx):
    def body(c):
        ctx.evaluated()
        toggle_case(ctx, c)
    if ctx.shard == 0:
        # anchor: a switching that isolates a bus, through a Toggle and through a custom event
        import os
        ss0 = build.load_case(os.path.join(build.cases_root(), 'ieee14/ieee14.json'), setup=False)
        deg = {}
        for b1, b2 in zip(ss0.Line.bus1.v, ss0.Line.bus2.v):
            deg[b1] = deg.get(b1, 0) + 1
            deg[b2] = deg.get(b2, 0) + 1
        leaf = [k for k, (b1, b2) in enumerate(zip(ss0.Line.bus1.v, ss0.Line.bus2.v)) if deg[b1] == 1 or deg[b2] == 1]
        for mode in ('toggle', 'custom'):
            c = dict(case='ieee14/ieee14.json', lines=leaf[:1] or [0], times=[0.3], tf=0.6, mode=mode)
            ctx.current_case = c
            ctx.count('toggle:anchor_' + mode)
            body(c)
    drive(ctx, toggle_cases(), body, 3 if ctx.tier == 'quick' else 60, name='toggle', shrink=False,
          budget_s=120 if ctx.tier == 'quick' else 900)


CAMPAIGNS = {
    'patterns': dict(fn=camp_patterns, shards=dict(quick=12, thorough=16)),
    'toggle': dict(fn=camp_toggle, shards=dict(quick=4, thorough=8)),
}


def replay(ctx, rec):
    c = rec['case']
    if 'times' in c:
        toggle_case(ctx, c)
    else:
        pattern_case(ctx, c)
