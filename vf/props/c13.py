"""C13 - case files round-trip; one case in different formats is one system."""
import copy
import os

import numpy as np
from hypothesis import strategies as st

from .. import build, sandbox
from ..gen import net as gnet
from ..oracle import pf as opf
from ..oracle import rawio
from ..runner import drive
from . import c01

RULE = ("(1) round trip: every stock case that loads (xlsx/json) and generated networks (string / numeric idx, list-valued "
        "and missing parameters, non-default bases, offline devices) are dumped to xlsx and to json and re-loaded: "
        "as_dict(vin=True) equal field by field (NaN == None == default), same power-flow solution and the same "
        "initialisation verdict. (2) cross-format: a generated network written by independent RAW-v33 and MATPOWER "
        "writers and loaded by ANDES must solve to the same voltages as the natively added system and satisfy the "
        "independent nodal balance of the generating data (transformer CW 1/2/3, CZ 1/2, branch line shunts GI/BI/GJ/BJ, "
        "several loads per bus, offline devices). (3) stock .raw / .m files: ANDES' power-flow solution must satisfy the "
        "nodal balance of an independent reading of the same text. (4) system2mpc -> mpc2system yields a system with the "
        "same solution. (5) PSS/E dynamic data: stock raw+dyr pairs and generated dyr files (own writer: 18 model record layouts "
        "typed in from the PSS/E data sheets, three number styles, continuation lines, drawn record order, two machines on "
        "a bus) loaded by ANDES: every record has exactly one device of the same-named model attached to the machine (bus, id) "
        "of the record whose input parameters equal the record's constants under their documented meaning (M = 2H, "
        "X''q = X''d), machine base / status / source impedance from the generator record. Non-trivial = case with >= 1 transformer on a non-system base or off-nominal tap, >= 1 bus with two "
        "loads, or >= 1 offline device; distinct by the case JSON / file name.")
ASSUMPTIONS = [
    "xlsx stores <= 17 significant digits: numeric fields are compared with relative 1e-13; json exactly.",
    "RAW transformers are generated with winding-2 at nominal ratio and without magnetising admittance (where the formats' conventions are unambiguous); stock transformers outside that subset are counted, not judged.",
    "DYR: only the 18 record layouts encoded in vf/oracle/dyrio.py are judged (others counted); ids are unquoted integers and fields blank-separated, as in every stock dyr file; values violating a parameter's declared constraint are counted, not judged.",
    "MATPOWER has one load / shunt per bus: several devices per bus are summed by the writer; device bases are converted to the system base.",
]


def to_system_base(net):
    """Same physical network with all branch/shunt data on the system base (MATPOWER / RAW system-base forms)."""
    n = copy.deepcopy(net)
    kv = {b['idx']: b['Vn'] for b in n['buses']}
    for ln in n['lines']:
        kz = (ln['Vn1'] ** 2 / ln['Sn']) / (kv[ln['bus1']] ** 2 / n['mva'])
        for z in ('r', 'x'):
            ln[z] *= kz
        for y in ('b', 'g', 'b1', 'g1', 'b2', 'g2'):
            ln[y] /= kz
        ln['Sn'], ln['Vn1'] = n['mva'], kv[ln['bus1']]
    for sh in n['shunts']:
        ky = (kv[sh['bus']] ** 2 / n['mva']) / (sh['Vn'] ** 2 / sh['Sn'])
        sh['g'] *= ky
        sh['b'] *= ky
        sh['Sn'], sh['Vn'] = n['mva'], kv[sh['bus']]
    return n


def int_idx(net):
    """Renumber buses to integers (RAW / MATPOWER need numeric bus numbers)."""
    n = copy.deepcopy(net)
    bmap = {b['idx']: k + 1 for k, b in enumerate(n['buses'])}
    for b in n['buses']:
        b['idx'] = bmap[b['idx']]
    for ln in n['lines']:
        ln['bus1'], ln['bus2'] = bmap[ln['bus1']], bmap[ln['bus2']]
    for key in ('shunts', 'pqs', 'pvs', 'slacks'):
        for d in n[key]:
            d['bus'] = bmap[d['bus']]
    return n, bmap


def solve_loaded(ss):
    try:
        ok = ss.PFlow.run()
    except Exception:
        ok = False
    return bool(ok), {i: (float(v), float(a)) for i, v, a in zip(ss.Bus.idx.v, ss.Bus.v.v, ss.Bus.a.v)}


def balance_at(ctx, net, ss, label, sig, tol=1e-6):
    """Independent nodal balance of `net` at the solution ANDES found for the loaded file."""
    V = np.array([ss.Bus.v.v[ss.Bus.idx2uid(b['idx'])] * np.exp(1j * ss.Bus.a.v[ss.Bus.idx2uid(b['idx'])]) for b in net['buses']])
    gen = {}
    # the online generator of a bus (at most one by construction) is matched by bus across PV and Slack: a format may
    # classify a device differently (e.g. any generator on the reference bus is read as Slack)
    online = {}
    for mdl in (ss.Slack, ss.PV):
        for k, bus in enumerate(mdl.bus.v):
            if mdl.u.v[k]:
                p, q = online.get(bus, (0.0, 0.0))
                online[bus] = (p + float(mdl.p.v[k]), q + float(mdl.q.v[k]))
    taken = set()
    for kind in ('slacks', 'pvs'):
        for g in net[kind]:
            if g['u'] and g['bus'] not in taken:
                gen[(kind, g['idx'])] = online.get(g['bus'], (0.0, 0.0))     # bus total goes to the first online unit
                taken.add(g['bus'])
            else:
                gen[(kind, g['idx'])] = (0.0, 0.0)
    mis, reg, modes = opf.mismatch(net, V, gen)
    bound = 2 * tol + 4 * reg + 1e-9
    k = int(np.argmax(np.abs(mis) - bound))
    if abs(mis[k]) > bound[k]:
        ctx.fail('loaded_file_describes_another_network', dict(label=label, bus=net['buses'][k]['idx'],
                                                               mismatch=[float(mis[k].real), float(mis[k].imag)], bound=float(bound[k])),
                 sig=sig)
    return modes


# ---------------------------------------------------------------------------------------------
# (2) cross-format on generated networks
# ---------------------------------------------------------------------------------------------

@st.composite
def xfmt_cases(draw):
    net = draw(gnet.networks(max_buses=8))
    xf3 = None
    if draw(st.integers(0, 2)) == 0:
        # a three-winding transformer between three distinct buses (RAW only): star-leg impedances, turns ratios, one phase shift
        xf3 = dict(sel=[draw(st.integers(0, 50)) for _ in range(2)],
                   z=[(draw(st.sampled_from([0.0, 0.004, 0.01])), draw(st.sampled_from([0.05, 0.08, 0.12, 0.2]))) for _ in range(3)],
                   windv=[draw(st.sampled_from([1.0, 1.0, 0.95, 1.05, 1.1])) for _ in range(3)],
                   ang=[draw(st.sampled_from([0.0, 0.0, -5.0, 3.0])), 0.0, 0.0], u=draw(st.sampled_from([1, 1, 1, 0])))
    return dict(net=net, fmt=draw(st.sampled_from(['raw', 'raw', 'm', 'mpc_export'])), cw=draw(st.sampled_from([1, 2, 3])),
                cz=draw(st.sampled_from([1, 2])), xf3=xf3,
                nomv=draw(st.sampled_from([None, None, (13.2 / 13.8, 1.05), (1.0, 0.96), (1.04, 1.0)])),
                load_split=draw(st.sampled_from([None, None, (0.5, 0.25, 0.25), (0.0, 0.0, 1.0), (0.2, 0.8, 0.0)])),
                vm=draw(st.sampled_from([1.0, 1.0, 0.96, 1.03])))


def xfmt_case(ctx, c):
    net0 = c['net']
    feats = gnet.features(net0)
    net, bmap = int_idx(to_system_base(net0))
    for g in net['slacks'] + net['pvs']:
        g['q0'] = 0.0
    ref_ok, ref_v = None, None
    ss_nat = build.build_static(net, rc={'PFlow': dict(report=0, tol=1e-10), 'Bus': dict(flat_start=1)}, permute=False)
    ref_ok, ref_v = solve_loaded(ss_nat)
    d = sandbox.scratch_dir('c13')
    ctx.count('fmt:' + c['fmt'])
    sig = dict(fmt=c['fmt'])
    if c['fmt'] == 'raw':
        sig.update(cw=c['cw'], cz=c['cz'], line_shunts=bool('asym_shunt' in feats or any(l['g1'] or l['b1'] or l['g2'] or l['b2'] for l in net['lines'])))
        # transformers without magnetising branch; asymmetric shunts only on plain branches
        for ln in net['lines']:
            if not (ln['tap'] == 1.0 and ln['phi'] == 0.0):
                ln['b'] = ln['g'] = ln['g1'] = ln['b1'] = ln['g2'] = ln['b2'] = 0.0
            else:
                # RAW has B (total) and GI,BI,GJ,BJ; fold the shared conductance into the end shunts
                ln['g1'] += ln['g'] / 2
                ln['g2'] += ln['g'] / 2
                ln['g'] = 0.0
        star = None
        if c.get('xf3') and len(net['buses']) >= 3:
            # the native twin of a three-winding transformer: a star bus and three two-winding legs (ratio w_i : 1 towards
            # the star point). The star bus takes the number ANDES documents for it (K + 1), so K is the highest bus number.
            ids = sorted(b['idx'] for b in net['buses'])
            kk = ids[-1]
            rest = ids[:-1]
            i = rest[c['xf3']['sel'][0] % len(rest)]
            rest2 = [b for b in rest if b != i]
            j = rest2[c['xf3']['sel'][1] % len(rest2)]
            kvs = {b['idx']: b['Vn'] for b in net['buses']}
            star = kk + 1
            x3 = c['xf3']
            net['xf3'] = [dict(buses=[i, j, kk], z=[list(z) for z in x3['z']], windv=list(x3['windv']), ang=list(x3['ang']), u=x3['u'])]
            nat = copy.deepcopy(net)
            nat.pop('xf3')
            nat['buses'].append(dict(idx=star, Vn=1.0, v0=1.0, a0=0.0, u=1))
            for q, (bq, (rq, xq), wq, aq) in enumerate(zip([i, j, kk], x3['z'], x3['windv'], x3['ang'])):
                nat['lines'].append(dict(idx='X3_%d' % q, bus1=bq, bus2=star, Sn=net['mva'], Vn1=kvs[bq], Vn2=1.0, r=rq, x=xq, b=0.0, g=0.0,
                                         b1=0.0, g1=0.0, b2=0.0, g2=0.0, tap=wq, phi=aq * np.pi / 180.0, u=x3['u']))
            for key in ('order', 'model_order'):
                nat.pop(key, None)
            sig['three_winding'] = True
            sig['three_winding_kv_differ'] = len(set([kvs[i], kvs[j], kvs[kk]])) > 1
            ctx.count('raw:three_winding' + (':kv_differ' if sig['three_winding_kv_differ'] else ''))
        else:
            nat = net
        ss_nat = build.build_static(nat, rc={'PFlow': dict(report=0, tol=1e-10), 'Bus': dict(flat_start=1)}, permute=False)
        ref_ok, ref_v = solve_loaded(ss_nat)
        text = rawio.write_raw(net, cw=c['cw'], cz=c['cz'], nomv=c.get('nomv'), load_split=c.get('load_split'), vm=c.get('vm', 1.0))
        if c.get('load_split'):
            ctx.count('raw:load_given_as_power_current_admittance_parts')
        if c.get('nomv') and c['cw'] == 2:
            ctx.count('raw:cw2_nameplate_voltage')
        net = nat
        path = os.path.join(d, 'g-%d.raw' % os.getpid())
    elif c['fmt'] == 'm':
        for ln in net['lines']:
            ln['g'] = ln['g1'] = ln['b1'] = ln['g2'] = ln['b2'] = 0.0      # not representable in MATPOWER
        for sh in net['shunts']:
            pass
        ss_nat = build.build_static(net, rc={'PFlow': dict(report=0, tol=1e-10), 'Bus': dict(flat_start=1)}, permute=False)
        ref_ok, ref_v = solve_loaded(ss_nat)
        text = rawio.write_m(net)
        path = os.path.join(d, 'g-%d.m' % os.getpid())
    else:
        # export/import keeps the caller's idx style: use the network with its original (int / str / mixed) idx
        net = to_system_base(net0)
        for g in net['slacks'] + net['pvs']:
            g['q0'] = 0.0
        for ln in net['lines']:
            ln['g'] = ln['g1'] = ln['b1'] = ln['g2'] = ln['b2'] = 0.0
        ss_nat = build.build_static(net, rc={'PFlow': dict(report=0, tol=1e-10), 'Bus': dict(flat_start=1)}, permute=False)
        ref_ok, ref_v = solve_loaded(ss_nat)
        ss_src = build.build_static(net, rc={'PFlow': dict(report=0, tol=1e-10), 'Bus': dict(flat_start=1)}, permute=False)
        from andes.io.matpower import system2mpc, mpc2system
        try:
            mpc = system2mpc(ss_src)
            ss = build.new_system({'PFlow': dict(report=0, tol=1e-10), 'Bus': dict(flat_start=1)})
            mpc2system(mpc, ss)
            ss.setup()
        except Exception as e:
            ctx.fail('mpc_export_import_raised', dict(error='%s: %s' % (type(e).__name__, str(e)[:200]), net=c01._compact(net)),
                     sig=dict(sig, error=type(e).__name__, string_idx=any(isinstance(b['idx'], str) for b in net['buses'])))
            return
        if any(isinstance(b['idx'], str) for b in net['buses']):
            # documented: with string idx the exported bus number is position + 1
            ref_v = {k + 1: ref_v[b['idx']] for k, b in enumerate(ss_src.Bus.idx.v) for b in [dict(idx=b)]} if False else \
                {k + 1: ref_v[idx] for k, idx in enumerate(ss_src.Bus.idx.v)}
            net = copy.deepcopy(net)
            pos = {idx: k + 1 for k, idx in enumerate(ss_src.Bus.idx.v)}
            for b in net['buses']:
                b['idx'] = pos[b['idx']]
            ctx.count('mpc_export:string_idx')
        ok, v = solve_loaded(ss)
        multi = 'multi_load_bus' in feats or len(set(s['bus'] for s in net['shunts'])) < len(net['shunts'])
        offl = any(not d_['u'] for d_ in net['pqs'] + net['shunts'])
        sig.update(several_devices_per_bus=bool(multi), offline_load_or_shunt=bool(offl))
        compare_solutions(ctx, c, net, ref_ok, ref_v, ok, v, sig)
        nontrivial(ctx, c, feats)
        return
    with open(path, 'w') as fh:
        fh.write(text)
    try:
        ss = build.load_case(path, rc={'PFlow': dict(report=0, tol=1e-10), 'Bus': dict(flat_start=1)})
    except Exception as e:
        ctx.fail('generated_file_not_loadable', dict(fmt=c['fmt'], error='%s: %s' % (type(e).__name__, str(e)[:200]), text=text[:1500]), sig=sig)
        return
    finally:
        os.remove(path)
    if ss is None or not ss.is_setup:
        ctx.fail('generated_file_not_loadable', dict(fmt=c['fmt'], text=text[:1500]), sig=sig)
        return
    ok, v = solve_loaded(ss)
    compare_solutions(ctx, c, net, ref_ok, ref_v, ok, v, sig)
    if ok and v and min(x[0] for x in v.values()) >= 0.9 and max(x[0] for x in v.values()) <= 1.1:
        # outside the normal range the voltage-dependent load conversion applies, and the formats carry their own
        # voltage limits for it (MATPOWER Vmin/Vmax columns): not the same network by construction
        balance_at(ctx, net, ss, 'generated ' + c['fmt'], sig, tol=1e-10)
    elif ok:
        ctx.count('xfmt:balance_not_judged_outside_normal_range')
    nontrivial(ctx, c, feats)


def compare_solutions(ctx, c, net, ref_ok, ref_v, ok, v, sig):
    if ref_ok and ref_v and (min(x[0] for x in ref_v.values()) < 0.9 or max(x[0] for x in ref_v.values()) > 1.1):
        ctx.count('xfmt:abnormal_solution_not_compared')
        return
    if ref_ok != ok:
        # a differing verdict is only a finding where the data have a solution in the normal range by an independent
        # Newton (then both descriptions must converge); elsewhere convergence hinges on rounding of the iterates
        try:
            okn, Vn, _ = opf.newton_pf(net)
            normal = bool(okn) and float(np.min(np.abs(Vn))) >= 0.9 and float(np.max(np.abs(Vn))) <= 1.1
        except Exception:
            normal = False
        if not normal:
            ctx.count('xfmt:verdict_differs_outside_normal_range_not_judged')
            return
        ctx.fail('convergence_differs_between_formats', dict(fmt=c['fmt'], native=ref_ok, loaded=ok, net=c01._compact(net)), sig=sig)
        return
    if not ok:
        return
    vmin = min(x[0] for x in ref_v.values())
    vmax = max(x[0] for x in ref_v.values())
    if vmin < 0.9 or vmax > 1.1:
        # outside the normal range power-flow solutions are not unique; a re-import may start from another point
        ctx.count('xfmt:abnormal_solution_not_compared')
        return
    for b in net['buses']:
        i = b['idx']
        if i not in v:
            ctx.fail('bus_missing_after_conversion', dict(fmt=c['fmt'], bus=i), sig=sig)
            return
        if abs(v[i][0] - ref_v[i][0]) > 1e-7 or abs(v[i][1] - ref_v[i][1]) > 1e-7:
            ctx.fail('solution_differs_between_formats', dict(fmt=c['fmt'], bus=i, native=ref_v[i], loaded=v[i], net=c01._compact(net),
                                                              cw=c.get('cw'), cz=c.get('cz')), sig=sig)
            return


def nontrivial(ctx, c, feats):
    if feats & {'tap', 'phase_shifter', 'branch_base', 'multi_load_bus', 'offline_load', 'offline_line', 'offline_gen', 'offline_shunt'}:
        ctx.nontrivial(dict(net=c['net'], fmt=c['fmt'], cw=c['cw'], cz=c['cz']), sample=dict(fmt=c['fmt'], cw=c['cw'], cz=c['cz'], features=sorted(feats),
                                                                                            net=c01._compact(c['net'])))


def camp_xfmt(ctx):
    def body(c):
        ctx.evaluated()
        xfmt_case(ctx, c)
    quick = ctx.tier == 'quick'
    drive(ctx, xfmt_cases(), body, 20 if quick else 400, name='xfmt', chunk=20, budget_s=150 if quick else 1500, shrink_budget_s=40)


# ---------------------------------------------------------------------------------------------
# (1) xlsx / json round trip
# ---------------------------------------------------------------------------------------------

def rows_equal(a, b, rtol):
    if a is None or (isinstance(a, float) and a != a):
        return b is None or (isinstance(b, float) and b != b) or b == '' or b is False
    if b is None or (isinstance(b, float) and b != b):
        return a == '' or a is False
    if isinstance(a, (int, float, np.integer, np.floating)) and isinstance(b, (int, float, np.integer, np.floating)) \
            and not isinstance(a, bool) and not isinstance(b, bool):
        return abs(float(a) - float(b)) <= rtol * max(abs(float(a)), abs(float(b)), 1e-300)
    return str(a) == str(b) or a == b


def add_events(ss, events):
    """Timed-event devices with string-valued option fields (every Alter method, Toggle targets)."""
    for k, e in enumerate(events):
        if e['kind'] == 'alter' and ss.PQ.n:
            ss.add('Alter', dict(idx='RTA%d' % k, model='PQ', dev=ss.PQ.idx.v[e['sel'] % ss.PQ.n], src='p0', attr='v', method=e['method'],
                                 amount=e['amount'], t=e['t']))
        elif e['kind'] == 'toggle' and ss.Line.n:
            ss.add('Toggle', dict(idx='RTT%d' % k, model='Line', dev=ss.Line.idx.v[e['sel'] % ss.Line.n], t=e['t']))


def roundtrip_case(ctx, c):
    import andes
    events = c.get('events') or []
    if c['source'] == 'stock':
        path = os.path.join(build.cases_root(), c['path'])
        try:
            ss = build.load_case(path, rc={'PFlow': dict(report=0)}, setup=not events)
            if events:
                add_events(ss, events)
                ss.setup()
        except Exception:
            ctx.count('rt:load_error')
            return
        if ss is None or not ss.is_setup:
            ctx.count('rt:load_error')
            return
        src_dir = os.path.dirname(path)
    else:
        ss = build.build_static(c['net'], rc={'PFlow': dict(report=0)}, setup=not events)
        if events:
            add_events(ss, events)
            ss.setup()
        src_dir = None
    if events:
        ctx.count('rt:with_event_devices')
    # the system MVA base is configuration, not case data: the reloaded system gets the same configuration
    rc_reload = {'PFlow': dict(report=0), 'System': dict(mva=float(ss.config.mva))}
    fmt = c['fmt']
    d = sandbox.scratch_dir('c13')
    out = os.path.join(src_dir if (src_dir and ss.TimeSeries.n) else d, 'verif-rt-%d.%s' % (os.getpid(), fmt))
    if ss.TimeSeries.n:
        ctx.count('rt:skipped_side_files')
        return
    rows0 = build.rows_of(ss, vin=True)
    ok0, v0 = solve_loaded(ss)
    sig = dict(fmt=fmt)
    try:
        andes.io.dump(ss, fmt, full_path=out, overwrite=True)
        ss2 = build.load_case(out, rc=rc_reload)
    except Exception as e:
        has_alter = ss.Alter.n > 0
        ctx.fail('dumped_file_not_loadable', dict(case=_b(c), error='%s: %s' % (type(e).__name__, str(e)[:200])),
                 sig=dict(sig, error=type(e).__name__, has_alter=bool(has_alter)))
        return
    finally:
        if os.path.isfile(out):
            os.remove(out)
    rows1 = build.rows_of(ss2, vin=True)
    rtol = 1e-13 if fmt == 'xlsx' else 0.0
    if set(rows0) != set(rows1):
        ctx.fail('models_differ_after_round_trip', dict(case=_b(c), lost=sorted(set(rows0) - set(rows1)), gained=sorted(set(rows1) - set(rows0))), sig=sig)
        return
    for m in rows0:
        if len(rows0[m]) != len(rows1[m]):
            ctx.fail('device_count_differs_after_round_trip', dict(case=_b(c), model=m, before=len(rows0[m]), after=len(rows1[m])), sig=sig)
            return
        for k, (r0, r1) in enumerate(zip(rows0[m], rows1[m])):
            for f, a in r0.items():
                b_ = r1.get(f)
                if isinstance(a, (list, np.ndarray)) or isinstance(b_, (list, np.ndarray)):
                    same = str(list(a) if a is not None else a) == str(list(b_) if b_ is not None else b_) or \
                        np.allclose(np.asarray(a, dtype=float), np.asarray(b_, dtype=float), rtol=1e-13) if a is not None and b_ is not None else a is b_
                else:
                    same = rows_equal(a, b_, rtol)
                if not same:
                    par = ss.models[m].params.get(f)
                    viol = False
                    try:
                        av = float(a)
                        viol = bool(par is not None and ((par.get_property('non_positive') and av > 0) or (par.get_property('non_negative') and av < 0)
                                                         or (par.get_property('non_zero') and av == 0)))
                    except Exception:
                        pass
                    ctx.fail('parameter_changed_by_round_trip', dict(case=_b(c), model=m, device=k, field=f, before=repr(a), after=repr(b_),
                                                                     violates_declared_constraint=viol),
                             sig=dict(fmt=fmt, value_violates_declared_constraint=viol))
                    if not viol:
                        return
    ok1, v1 = solve_loaded(ss2)
    normal = bool(ok0) and bool(v0) and min(x[0] for x in v0.values()) >= 0.9 and max(x[0] for x in v0.values()) <= 1.1 \
        and max(abs(x[1]) for x in v0.values()) < 3.0
    if not normal:
        ctx.count('rt:solution_outside_normal_range_not_compared')
    elif ok0 != ok1:
        ctx.fail('power_flow_verdict_changed_by_round_trip', dict(case=_b(c), before=ok0, after=ok1), sig=sig)
    elif ok0:
        for i in v0:
            if abs(v0[i][0] - v1[i][0]) > 1e-9 or abs(v0[i][1] - v1[i][1]) > 1e-9:
                ctx.fail('power_flow_changed_by_round_trip', dict(case=_b(c), bus=repr(i), before=v0[i], after=v1[i]), sig=sig)
                break
    ctx.count('rt:' + fmt)
    ctx.nontrivial(dict(c=_b(c), fmt=fmt), sample=dict(case=_b(c), models=len(rows0)))


def _b(c):
    return dict(source=c['source'], path=c.get('path'), fmt=c['fmt'], nbus=len(c['net']['buses']) if 'net' in c else None,
                events=[(e['kind'], e.get('method')) for e in (c.get('events') or [])])


@st.composite
def rt_cases(draw, paths):
    fmt = draw(st.sampled_from(['xlsx', 'json']))
    events = []
    if draw(st.integers(0, 1)) == 0:
        for _ in range(draw(st.integers(1, 3))):
            if draw(st.integers(0, 2)) > 0:
                events.append(dict(kind='alter', sel=draw(st.integers(0, 40)), method=draw(st.sampled_from(['+', '-', '=', '+', '-', '=', '*', '/'])),
                                   amount=draw(st.sampled_from([0.1, 2.0, -0.5])), t=draw(st.sampled_from([0.5, 1.0, 2.5]))))
            else:
                events.append(dict(kind='toggle', sel=draw(st.integers(0, 40)), t=draw(st.sampled_from([0.5, 1.0, 2.5]))))
    if draw(st.integers(0, 3)) == 0:
        return dict(source='net', net=draw(gnet.networks(max_buses=8)), fmt=fmt, events=events)
    return dict(source='stock', path=draw(st.sampled_from(paths)), fmt=fmt, events=events)


def camp_roundtrip(ctx):
    quick = ctx.tier == 'quick'
    paths = [os.path.relpath(p, build.cases_root()) for p in build.stock_cases(('.xlsx', '.json'))
             if os.path.getsize(p) < (150000 if quick else 700000) and not os.path.relpath(p, build.cases_root()).startswith(('EI', 'ei'))]

    def body(c):
        ctx.evaluated()
        roundtrip_case(ctx, c)
    if ctx.shard == 0:
        # anchors: every Alter method and a Toggle through both formats
        for fmt in ('xlsx', 'json'):
            c = dict(source='stock', path='kundur/kundur_full.xlsx', fmt=fmt,
                     events=[dict(kind='alter', sel=k, method=m, amount=0.1, t=1.0 + k) for k, m in enumerate(['+', '-', '*', '/', '='])]
                     + [dict(kind='toggle', sel=1, t=0.5)])
            ctx.current_case = c
            body(c)
    drive(ctx, rt_cases(paths), body, 12 if quick else 150, name='roundtrip', chunk=6, shrink=False, budget_s=150 if quick else 1500)


# ---------------------------------------------------------------------------------------------
# (3) stock raw / m files vs an independent reading
# ---------------------------------------------------------------------------------------------

def camp_stock_text(ctx):
    files = [p for p in build.stock_cases(('.raw', '.m'))]
    files = [p for k, p in enumerate(files) if k % ctx.nshards == ctx.shard]
    for path in files:
        if os.path.getsize(path) > (400000 if ctx.tier == 'quick' else 5000000):
            continue
        rel = os.path.relpath(path, build.cases_root())
        ctx.current_case = dict(stock=rel)
        text = open(path, errors='replace').read()
        try:
            ss = build.load_case(path, rc={'PFlow': dict(report=0)})
        except Exception:
            ctx.count('stock:load_error')
            continue
        if ss is None or not ss.is_setup:
            continue
        ctx.evaluated()
        if path.endswith('.m'):
            mine = rawio.read_m(text)
            # element counts and a few key columns
            nb, ng, nl = len(mine['bus']), len(mine['gen']), len(mine['branch'])
            if ss.Bus.n != nb or ss.Line.n != nl or ss.PV.n + ss.Slack.n != ng:
                ctx.fail('element_counts_differ_from_file', dict(file=rel, andes=[ss.Bus.n, ss.PV.n + ss.Slack.n, ss.Line.n], file_counts=[nb, ng, nl]),
                         sig=dict(fmt='m'))
            mva = mine['baseMVA']
            pd = {int(r[0]): r[2] / mva for r in mine['bus']}
            got = {}
            for bus, p0 in zip(ss.PQ.bus.v, ss.PQ.p0.vin):
                got[bus] = got.get(bus, 0.0) + float(p0)
            for i, p in pd.items():
                if abs(got.get(i, 0.0) - p) > 1e-9:
                    ctx.fail('load_differs_from_file', dict(file=rel, bus=i, andes=got.get(i, 0.0), file_value=p), sig=dict(fmt='m'))
                    break
            qd = {int(r[0]): r[3] / mva for r in mine['bus']}
            gotq = {}
            for bus, q0 in zip(ss.PQ.bus.v, ss.PQ.q0.vin):
                gotq[bus] = gotq.get(bus, 0.0) + float(q0)
            for i, q in qd.items():
                if abs(gotq.get(i, 0.0) - q) > 1e-9:
                    ctx.fail('load_differs_from_file', dict(file=rel, bus=i, andes_q=gotq.get(i, 0.0), file_value_q=q, file_value_p=pd.get(i)),
                             sig=dict(fmt='m', which='q'))
                    break
            gsh = {int(r[0]): (r[4] / mva, r[5] / mva) for r in mine['bus']}
            gots = {}
            for bus, g, b in zip(ss.Shunt.bus.v, ss.Shunt.g.vin, ss.Shunt.b.vin):
                a = gots.get(bus, (0.0, 0.0))
                gots[bus] = (a[0] + float(g), a[1] + float(b))
            for i, (g, b) in gsh.items():
                a = gots.get(i, (0.0, 0.0))
                if abs(a[0] - g) > 1e-9 or abs(a[1] - b) > 1e-9:
                    ctx.fail('shunt_differs_from_file', dict(file=rel, bus=i, andes=list(a), file_value=[g, b]), sig=dict(fmt='m'))
                    break
            xs = sorted(round(r[3], 9) for r in mine['branch'])
            xa = sorted(round(float(x), 9) for x in ss.Line.x.vin)
            if xs != xa:
                ctx.fail('branch_reactances_differ_from_file', dict(file=rel), sig=dict(fmt='m'))
            ctx.count('stock:m_checked')
            ctx.nontrivial(dict(stock=rel), sample=dict(stock=rel, buses=nb))
            continue
        try:
            net = rawio.read_raw(text)
        except Exception as e:
            ctx.count('stock:raw_reader_failed')
            ctx.note('independent RAW reader failed on %s: %s' % (rel, str(e)[:100]))
            continue
        if ss.Bus.n != len(net['buses']) + net.get('n_three_winding', 0):
            ctx.fail('element_counts_differ_from_file', dict(file=rel, andes_buses=ss.Bus.n, file_buses=len(net['buses']), three_winding=net.get('n_three_winding')),
                     sig=dict(fmt='raw'))
        if ss.PQ.n != len(net['pqs']) or ss.PV.n + ss.Slack.n != len(net['pvs']) + len(net['slacks']):
            ctx.fail('element_counts_differ_from_file', dict(file=rel, andes=[ss.PQ.n, ss.PV.n + ss.Slack.n], file_counts=[len(net['pqs']), len(net['pvs']) + len(net['slacks'])]),
                     sig=dict(fmt='raw'))
        ok, v = solve_loaded(ss)
        judged = ok and net.get('n_three_winding', 0) == 0 and ss.ShuntSw.n == 0 \
            and all(abs(ln['tap'] - 1) < 1e-12 or not ln.get('mag_on_bus_side') or (ln['g1'] == 0 and ln['b1'] == 0) for ln in net['lines'])
        if judged:
            # winding-2 off-nominal ratios are outside the unambiguous subset
            balance_at(ctx, net, ss, rel, dict(fmt='raw', stock=True))
            ctx.count('stock:raw_balance_checked')
        else:
            ctx.count('stock:raw_counts_only')
        ctx.nontrivial(dict(stock=rel), sample=dict(stock=rel, buses=len(net['buses']), judged=bool(judged)))


# ---------------------------------------------------------------------------------------------
# (5) PSS/E dynamic data: ANDES' reading of a dyr file vs an independent reading of the same text
# ---------------------------------------------------------------------------------------------

def _machine_of(ss, dev_model, uid, kind):
    """(bus, machine id) of the machine a loaded dynamic device is attached to, following the index fields."""
    mdl = getattr(ss, dev_model)
    if kind == 'avr':
        avr = mdl.avr.v[uid]
        exc = ss.Exciter.idx2model(avr)
        syn = exc.syn.v[exc.idx2uid(avr)]
    elif kind == 'syn':
        syn = mdl.syn.v[uid]
    else:
        syn = None
    if syn is not None:
        gm = ss.SynGen.idx2model(syn)
        gu = gm.idx2uid(syn)
        gen = gm.gen.v[gu]
    else:
        gen = mdl.gen.v[uid]
    sg = ss.StaticGen.idx2model(gen)
    su = sg.idx2uid(gen)
    return sg.bus.v[su], sg.subidx.v[su], gen


def _violates_declared_constraint(p, val):
    prop = p.property
    return (prop.get('non_zero') and val == 0) or (prop.get('non_positive') and val > 0) or (prop.get('non_negative') and val < 0) \
        or (prop.get('mandatory') and val is None)


def compare_dyr(ctx, ss, records, label, sig, gen_data=None):
    """Every record of an encoded model must have exactly one device of the same-named ANDES model attached to the machine
    (bus, id) of the record, whose input-base parameters are the record's constants under their documented meaning."""
    from ..oracle import dyrio
    n_judged = 0
    by_model = {}
    for r in records:
        by_model.setdefault(r['model'], []).append(r)
    for model, recs in sorted(by_model.items()):
        if model not in dyrio.LAYOUT:
            ctx.count('dyr:model_not_encoded:' + model, len(recs))
            continue
        kind = dyrio.LAYOUT[model][0]
        mdl = getattr(ss, model)
        located = {}
        for uid in range(mdl.n):
            try:
                bus, mid, gen = _machine_of(ss, model, uid, kind)
            except Exception as e:       # a dangling index is a wrong link
                ctx.fail('dyr_device_link_broken', dict(file=label, model=model, uid=uid, error=repr(e)[:200]), sig=dict(sig, model=model))
                continue
            located.setdefault((bus, mid), []).append((uid, gen))
        aliased = sum(len(v) for m, v in by_model.items() if dyrio.ALIASES.get(m) == model)
        if mdl.n != len(recs) + aliased:
            ctx.fail('dyr_device_count_differs_from_file', dict(file=label, model=model, andes=mdl.n, records=len(recs), aliased=aliased),
                     sig=dict(sig, model=model))
        for r in recs:
            if r.get('cons') is None:
                ctx.count('dyr:short_record')
                continue
            devs = located.get((r['bus'], r['id']), [])
            if aliased:
                # records of another PSS/E model also populate this class: pick by parameters below
                pass
            if len(devs) == 0:
                ctx.fail('dyr_record_has_no_device', dict(file=label, model=model, bus=r['bus'], id=r['id'], located=sorted(map(str, located))[:8]),
                         sig=dict(sig, model=model))
                continue
            exp = dyrio.expected_params(model, dict(r['cons'], **(r['ints'] or {})))
            best = None
            for uid, gen in devs:
                bad = []
                for name, val in exp.items():
                    p = getattr(mdl, name)
                    got = p.vin[uid] if hasattr(p, 'vin') else p.v[uid]
                    if _violates_declared_constraint(p, val):
                        ctx.count('dyr:value_outside_declared_constraint')
                        continue
                    if not (abs(float(got) - float(val)) <= 1e-12 * max(1.0, abs(float(val)))):
                        bad.append((name, float(got), float(val)))
                if best is None or len(bad) < len(best[1]):
                    best = (uid, bad, gen)
            uid, bad, gen = best
            if bad:
                ctx.fail('dyr_parameter_differs_from_file', dict(file=label, model=model, bus=r['bus'], id=r['id'],
                                                                 differences=[dict(param=a, andes=b, file_value=c) for a, b, c in bad[:6]]),
                         sig=dict(sig, model=model, param=bad[0][0]))
            if kind == 'gen' and gen_data is not None:
                g = gen_data.get((r['bus'], r['id']))
                if g is not None:
                    for name, val in (('Sn', g['Sn']), ('Vn', g['Vn']), ('u', g['u']), ('bus', r['bus'])):
                        got = getattr(mdl, name).v[uid] if name in ('u', 'bus') else getattr(mdl, name).vin[uid]
                        if got != val:
                            ctx.fail('dyr_machine_base_or_status_differs_from_power_flow_data',
                                     dict(file=label, model=model, bus=r['bus'], id=r['id'], field=name, andes=got, file_value=val),
                                     sig=dict(sig, model=model, param=name))
            n_judged += 1
            ctx.count('dyr:record_judged:' + model)
    return n_judged


STOCK_DYR = [('ieee14/ieee14.raw', 'ieee14/ieee14.dyr'), ('ieee14/ieee14.raw', 'ieee14/ieee14_ieeevc.dyr'),
             ('kundur/kundur.raw', 'kundur/kundur_full.dyr'), ('kundur/kundur.raw', 'kundur/kundur_gencls.dyr'),
             ('npcc/npcc.raw', 'npcc/npcc_full.dyr'), ('wecc/wecc.raw', 'wecc/wecc_full.dyr'), ('wecc/wecc.raw', 'wecc/wecc_gencls.dyr'),
             ('nordic44/N44_BC.raw', 'nordic44/N44_BC.dyr')]


def raw_gen_data(text):
    """(bus, id) -> Sn (MBASE), Vn (bus base kV), u (STAT) by an independent reading of the RAW text."""
    net = rawio.read_raw(text)
    kv = {b['idx']: b['Vn'] for b in net['buses']}
    out = {}
    for g in net['slacks'] + net['pvs']:
        out[(g['bus'], g['sub'])] = dict(Sn=g['Sn'], Vn=kv[g['bus']], u=g['u'])
    return out


def camp_dyr_stock(ctx):
    from ..oracle import dyrio
    root = build.cases_root()
    pairs = [p for k, p in enumerate(STOCK_DYR) if k % ctx.nshards == ctx.shard]
    for raw, dyr in pairs:
        rp, dp = os.path.join(root, raw), os.path.join(root, dyr)
        if not (os.path.exists(rp) and os.path.exists(dp)):
            ctx.count('dyr:stock_pair_missing')
            continue
        ctx.current_case = dict(stock_dyr=dyr)
        records = dyrio.read_dyr(open(dp, errors='replace').read())
        try:
            gen_data = raw_gen_data(open(rp, errors='replace').read())
        except Exception as e:
            gen_data = None
            ctx.note('independent RAW reader failed on %s: %s' % (raw, str(e)[:100]))
        ss = build.load_case(rp, addfile=dp)
        ctx.evaluated()
        n = compare_dyr(ctx, ss, records, dyr, dict(fmt='dyr', stock=True), gen_data)
        ctx.nontrivial(dict(stock_dyr=dyr), sample=dict(stock_dyr=dyr, records=len(records), judged=n))


_NEG = ('MIN', 'UC', 'VCL')


@st.composite
def dyr_cases(draw):
    from ..oracle import dyrio
    net = draw(gnet.networks(max_buses=6))
    ngen = len(net['slacks']) + len(net['pvs'])
    val = st.floats(0.01, 9.0).map(lambda x: float('%.5g' % x)) | st.sampled_from([0.0, 1.0, 0.05, 99.0, 1e-3])

    def record(model):
        kind, ints, cons = dyrio.LAYOUT[model]
        iv = [draw(st.integers(1, 5)) if nm.startswith('MODE') and nm == 'MODE' else 0 for nm in ints]
        cv = []
        for nm in cons:
            v = draw(val)
            cv.append(-v if nm.endswith(_NEG) else v)
        return dict(model=model, ints=iv, cons=cv)

    dyn = []
    for k in range(ngen):
        mach = draw(st.sampled_from(['GENROU', 'GENROU', 'GENCLS', None]))
        recs = []
        if mach:
            recs.append(record(mach))
            exc = draw(st.sampled_from([None, 'SEXS', 'IEEEX1', 'EXDC2', 'ESDC2A', 'IEEET1', 'EXST1', 'ESST3A', 'EXAC1']))
            gov = draw(st.sampled_from([None, 'TGOV1', 'IEEEG1', 'IEESGO', 'HYGOV', 'GAST']))
            if gov:
                recs.append(record(gov))
            if exc:
                recs.append(record(exc))
                pss = draw(st.sampled_from([None, None, 'IEEEST', 'ST2CUT']))
                if pss:
                    recs.append(record(pss))
                if draw(st.integers(0, 3)) == 0:
                    recs.append(record('IEEEVC'))
        dyn.append(recs)
    return dict(net=net, dyn=dyn, style=draw(st.sampled_from(['g17', 'fixed', 'exp'])), per_line=draw(st.sampled_from([0, 0, 4, 5])),
                width=draw(st.sampled_from([1, 3])), order=draw(st.integers(0, 10 ** 6)), zsrc=draw(st.sampled_from([(0.0, 0.3), (0.004, 0.25)])))


def dyr_case(ctx, c):
    from ..oracle import dyrio
    net, bmap = int_idx(to_system_base(c['net']))
    gens = net['slacks'] + net['pvs']
    seen = {}
    for g in gens:
        seen[g['bus']] = seen.get(g['bus'], 0) + 1
        g['sub'] = seen[g['bus']]
        g['q0'] = 0.0
        g['zr'], g['zx'] = c['zsrc']
    kv = {b['idx']: b['Vn'] for b in net['buses']}
    records = []
    for g, recs in zip(gens, c['dyn']):
        for r in recs:
            records.append(dict(r, bus=g['bus'], id=g['sub']))
    if not records:
        ctx.count('dyr:no_dynamic_record')
        return
    # file order: a permutation drawn by the case (a controller may precede its machine)
    k = c['order']
    order = []
    pool = list(range(len(records)))
    while pool:
        order.append(pool.pop(k % len(pool)))
        k = k // 7 + 3
    records = [records[i] for i in order]
    d = sandbox.scratch_dir('c13dyr')
    rp, dp = os.path.join(d, 'case.raw'), os.path.join(d, 'case.dyr')
    text = dyrio.write_dyr(records, style=c['style'], per_line=c['per_line'], width=c['width'])
    with open(rp, 'w') as fh:
        fh.write(rawio.write_raw(net))
    with open(dp, 'w') as fh:
        fh.write(text)
    mine = dyrio.read_dyr(text)
    # self-test of the independent writer/reader pair (a harness matter, never a verdict)
    assert len(mine) == len(records), 'own DYR reader lost a record'
    for a, b in zip(mine, records):
        assert a['model'] == b['model'] and a['bus'] == b['bus'] and a['id'] == b['id']
        assert a['cons'] is not None and len(a['cons']) == len(b['cons'])
        for x, y in zip(a['cons'].values(), b['cons']):
            assert abs(x - y) <= 1e-3 * max(1.0, abs(y)), 'own DYR reader disagrees with own writer'
    sig = dict(fmt='dyr', style=c['style'], multiline=bool(c['per_line']))
    try:
        ss = build.load_case(rp, addfile=dp)
    except Exception as e:
        ctx.fail('dyr_file_rejected', dict(error=repr(e)[:300], dyr=text[:600]), sig=sig)
        return
    if ss is None or not ss.is_setup:
        ctx.fail('dyr_file_rejected', dict(error='load returned no set-up system', dyr=text[:600]), sig=sig)
        return
    gen_data = {(g['bus'], g['sub']): dict(Sn=g['Sn'], Vn=kv[g['bus']], u=g['u']) for g in gens}
    n = compare_dyr(ctx, ss, mine, 'generated', sig, gen_data)
    # source impedance of the power-flow record is the machine's ra / classical x'd
    for mname in ('GENCLS', 'GENROU'):
        mdl = getattr(ss, mname)
        for uid in range(mdl.n):
            if abs(mdl.ra.vin[uid] - c['zsrc'][0]) > 1e-15 or (mname == 'GENCLS' and abs(mdl.xd1.vin[uid] - c['zsrc'][1]) > 1e-15):
                ctx.fail('dyr_machine_source_impedance_differs', dict(model=mname, ra=float(mdl.ra.vin[uid]), file_value=list(c['zsrc'])),
                         sig=dict(sig, model=mname))
    models = sorted(set(r['model'] for r in records))
    ctx.count('dyr:style:' + c['style'])
    if c['per_line']:
        ctx.count('dyr:multiline')
    if any(v > 1 for v in seen.values()):
        ctx.count('dyr:two_machines_on_a_bus')
    if n >= 2 and len(models) >= 2:
        ctx.nontrivial(c, sample=dict(models=models, records=len(records), style=c['style'], per_line=c['per_line'], dyr_head=text[:300]))


def camp_dyr(ctx):
    def body(c):
        ctx.evaluated()
        dyr_case(ctx, c)
    quick = ctx.tier == 'quick'
    if ctx.shard == 0:
        camp_dyr_stock(ctx)
    drive(ctx, dyr_cases(), body, 12 if quick else 250, name='dyr', chunk=12, budget_s=100 if quick else 1200, shrink_budget_s=40)


CAMPAIGNS = {
    'xfmt': dict(fn=camp_xfmt, shards=dict(quick=8, thorough=12)),
    'roundtrip': dict(fn=camp_roundtrip, shards=dict(quick=6, thorough=12)),
    'stock_text': dict(fn=camp_stock_text, shards=dict(quick=2, thorough=4)),
    'dyr': dict(fn=camp_dyr, shards=dict(quick=6, thorough=12)),
}


def replay(ctx, rec):
    c = rec['case']
    if 'cw' in c:
        xfmt_case(ctx, c)
    elif 'source' in c:
        roundtrip_case(ctx, c)
    elif 'dyn' in c:
        dyr_case(ctx, c)
    elif 'stock_dyr' in c:
        ctx.nshards, ctx.shard = 1, 0
        camp_dyr_stock(ctx)
