"""C04 - every accepted simulation step satisfies the implicit integration rule."""
import os

import numpy as np
from hypothesis import strategies as st

from .. import build, sim
from ..runner import drive
from . import c06

RULE = ("Stock dynamic cases with their own disturbances and with generated mild schedules (line trip/reclose, load "
        "toggles, parameter alterations, short high-impedance faults) x configuration (trapezoid/backeuler, fixed/variable "
        "step, tstep, g_scale 0/1/2, honest, tol 1e-4/1e-8/1e-10, shrinkt, sparse solver). Observation: TDS.callpert "
        "monitor (state and solver-held derivative before every attempt, rejection flag) and a dae.store wrapper "
        "(accepted point, iteration-matrix row sums, pegged states). Oracle: the rule written out from the property "
        "text, q = T(x1-x0) - h(theta f1 + (1-theta) f0), per accepted step with a row-wise Newton bound "
        "2*tol*sum_j|Ac_ij| (sharp on tight-tolerance runs), algebraic residual bound, bitwise state restoration and "
        "exact time rewind after a rejected attempt, h <= tstep under fixt, stamps <= tf, completion of stock stable "
        "cases; order of accuracy from step halving against a 16x finer run. Non-trivial = run with >= 1 event and "
        ">= 30 accepted steps in which the state moved by > 1e-3; distinct by case+config JSON.")
ASSUMPTIONS = [
    "f1 is the derivative the solver held when it accepted the step (one Newton iterate before the stored x1); the bound accounts for that through the iteration-matrix row sums.",
    "States pegged by an anti-windup limiter at the accepted point are exempt (as the property states).",
    "Completion is only demanded for stock cases with their stock disturbance (kundur_full, ieee14_full, wscc9, pjm5bus) under tstep <= 1/30.",
    "Order clause: ratio err(h)/err(h/2) >= 2.8 (trapezoid) and >= 1.5 (backward Euler); the 1e-4 event half-steps put a floor under the error.",
]

STABLE = ['kundur/kundur_full.xlsx', 'ieee14/ieee14_full.xlsx', 'kundur/kundur_ieeest.xlsx', '5bus/pjm5bus.xlsx']
MORE = ['kundur/kundur_aw.xlsx', 'kundur/kundur_sexs.xlsx', 'kundur/kundur_ieeest.xlsx', 'ieee14/ieee14_fault.xlsx',
        'kundur/kundur_exdc2_zero_tb.xlsx', 'ieee14/ieee14_esst3a.xlsx', 'kundur/kundur_ieeeg1.xlsx', 'ieee39/ieee39_full.xlsx']


@st.composite
def configs(draw):
    return dict(method=draw(st.sampled_from(['trapezoid', 'trapezoid', 'backeuler'])),
                fixt=draw(st.sampled_from([1, 1, 0])), tstep=draw(st.sampled_from([1 / 30, 1 / 60, 0.01, 0.05])),
                g_scale=draw(st.sampled_from([1, 1, 0, 2])), honest=draw(st.sampled_from([0, 0, 1])),
                tol=draw(st.sampled_from([1e-4, 1e-4, 1e-8, 1e-10])), shrinkt=draw(st.sampled_from([1, 1, 0])),
                sparselib=draw(st.sampled_from(['klu', 'klu', 'umfpack', 'spsolve'])))


@st.composite
def run_cases(draw, quick):
    own = draw(st.booleans())
    cfg = draw(configs())
    if own:
        base = draw(st.sampled_from(STABLE + (MORE if not quick else MORE[:4])))
        tf = draw(st.sampled_from([1.0, 2.6, 3.0] if base in ('kundur/kundur_full.xlsx', '5bus/pjm5bus.xlsx') else [1.0, 1.6]))
        return dict(base=base, events=[], tf=tf, cfg=cfg, own=True)
    base = draw(st.sampled_from(STABLE + ['ieee14/ieee14_solar.xlsx']))
    tf = draw(st.sampled_from([0.8, 1.2]))
    ev = []
    n = draw(st.integers(1, 3))
    for _ in range(n):
        kind = draw(st.sampled_from(['toggle_line', 'toggle_pq', 'alter', 'fault']))
        t = float(round(draw(st.floats(0.05, tf - 0.3)), 4))
        e = dict(kind=kind, t=t, cls='offgrid', u=1, sel=draw(st.integers(0, 60)))
        if kind == 'alter':
            e.update(target=draw(st.sampled_from(['line_x', 'pq_p0', 'gen_M', 'gen_M', 'shared_T'])), method=draw(st.sampled_from(['*', '+'])),
                     amount=draw(st.sampled_from([1.1, 0.01])))
            if e['target'] in ('gen_M', 'shared_T'):
                e.update(method='*', amount=draw(st.sampled_from([0.5, 2.0])))
        if kind == 'fault':
            e['dur'] = draw(st.sampled_from([0.02, 0.05]))
        ev.append(e)
        if kind.startswith('toggle'):
            e2 = dict(e)
            e2['t'] = float(round(t + draw(st.sampled_from([0.05, 0.1])), 4))
            ev.append(e2)
    return dict(base=base, events=ev, tf=tf, cfg=cfg, own=False)


def rc_of(c):
    cfg = c['cfg']
    return {'PFlow': dict(report=0, sparselib=cfg['sparselib']),
            'TDS': dict(no_tqdm=1, tf=c['tf'], tstep=cfg['tstep'], fixt=cfg['fixt'], method=cfg['method'], g_scale=cfg['g_scale'],
                        honest=cfg['honest'], tol=cfg['tol'], shrinkt=cfg['shrinkt'], sparselib=cfg['sparselib'], criteria=0)}


def simulate(c, monitor=True):
    path = os.path.join(build.cases_root(), c['base'])
    ss = build.load_case(path, rc=rc_of(c), setup=False)
    c06.materialise(ss, dict(events=c['events']))
    if not ss.setup():
        raise RuntimeError('setup failed')
    if not ss.PFlow.run():
        return ss, None, None
    mon = None
    if monitor:
        mon = sim.Monitor(ss)
        mon.want_rowsum = True
        mon.attach()
    ss.TDS.init()
    assert ss.TDS.config.method == c['cfg']['method'] and type(ss.TDS.method).__name__.lower().startswith(c['cfg']['method'][:4])
    try:
        ok = ss.TDS.run()
    except Exception as e:
        ok = 'raised:%s' % type(e).__name__
    return ss, mon, ok


def check_run(ctx, c):
    ss, mon, ok = simulate(c)
    cfg = c['cfg']
    brief = dict(base=c['base'], tf=c['tf'], cfg=cfg, own=c['own'],
                 events=[{k: e[k] for k in ('kind', 't', 'sel') if k in e} for e in c['events']])
    if mon is None:
        ctx.count('skip:pflow_failed')
        return
    for k in ('method', 'fixt', 'g_scale', 'honest', 'tol', 'sparselib', 'tstep'):
        ctx.count('cfg:%s=%s' % (k, ('%.4g' % cfg[k]) if isinstance(cfg[k], float) else cfg[k]))
    if isinstance(ok, str):
        ctx.count('run:' + ok)
        ok = False
    dae = ss.dae
    n = dae.n
    if n == 0:
        ctx.count('skip:no_differential_states')
        return
    Tf = np.array(dae.Tf, dtype=float)
    theta = 0.5 if cfg['method'] == 'trapezoid' else 1.0
    tol = cfg['tol']
    sig0 = dict(method=cfg['method'], tight=tol <= 1e-8)
    # ---- pair every stored row with the attempt that produced it -------------------------------------------------
    last_attempt = None
    nsteps = 0
    worst = 0.0
    worst_g = 0.0
    moved = 0.0
    x_init = None
    for kind, rec in mon.log:
        if kind == 'a':
            last_attempt = rec
            continue
        a = last_attempt
        if a is None:
            continue
        if x_init is None:
            x_init = a['x'].copy()
        h = a['h']
        if h <= 0:
            continue
        if rec['t'] != a['t']:
            ctx.fail('stored_time_differs_from_attempt_time', dict(run=brief, stored=rec['t'], attempt=a['t']), sig=sig0)
        x0, f0 = a['x'], a['f']
        x1, f1 = rec['x'], rec['f']
        if len(x0) != n or len(x1) != n:
            continue
        Tk = rec.get('Tf', Tf)          # an Alter event may change a time constant during the run
        if len(Tk) != n:
            Tk = Tf
        q = Tk * (x1 - x0) - h * (theta * f1 + (1 - theta) * f0)
        rs = rec.get('rowsum')
        bound = 2 * tol * (rs[:n] if rs is not None else np.ones(n)) + 1e-11 * (1 + np.abs(Tf * x1))
        peg = set(rec.get('pegged', []))
        mask = np.ones(n, dtype=bool)
        for p in peg:
            if p < n:
                mask[p] = False
        viol = mask & (np.abs(q) > bound)
        if viol.any():
            i = int(np.argmax(np.where(viol, np.abs(q) / bound, 0)))
            ctx.fail('integration_rule_violated',
                     dict(run=brief, t=rec['t'], h=h, state=dae.x_name[i], q=float(q[i]), bound=float(bound[i]),
                          x0=float(x0[i]), x1=float(x1[i]), f0=float(f0[i]), f1=float(f1[i]), T=float(Tk[i]), T_held_by_solver=float(np.array(dae.Tf)[i])),
                     sig=dict(sig0, first_step=rec['t'] == 0.0, accepted_by_chattering_rule=bool(rec.get('chatter'))))
        if rec.get('chatter'):
            ctx.count('steps_accepted_by_chattering_rule')
        worst = max(worst, float(np.max(np.abs(q[mask]) / bound[mask])) if mask.any() else 0.0)
        # algebraic constraints at the accepted point (solver-held g, one iterate behind)
        g = rec['g']
        scale = cfg['g_scale'] * h if cfg['g_scale'] > 0 else 1.0
        gb = 2 * tol * (rs[n:] if rs is not None else np.ones(len(g))) / scale + 1e-10
        gv = np.abs(g) > gb
        if gv.any():
            i = int(np.argmax(np.where(gv, np.abs(g) / gb, 0)))
            ctx.fail('algebraic_constraint_violated', dict(run=brief, t=rec['t'], equation=dae.y_name[i], g=float(g[i]), bound=float(gb[i])),
                     sig=dict(sig0, accepted_by_chattering_rule=bool(rec.get('chatter'))))
        worst_g = max(worst_g, float(np.max(np.abs(g) / gb)))
        if cfg['fixt'] and h > cfg['tstep'] * (1 + 1e-12):
            ctx.fail('step_exceeds_fixed_step', dict(run=brief, t=rec['t'], h=h, tstep=cfg['tstep']), sig=sig0)
        if rec['t'] > c['tf']:
            ctx.fail('step_past_end_time', dict(run=brief, t=rec['t']), sig=sig0)
        moved = max(moved, float(np.max(np.abs(x1 - x_init))))
        nsteps += 1
    # ---- rejected attempts restore the state exactly -----------------------------------------------------------------
    nrej = 0
    for k in range(1, len(mon.attempts)):
        a, p = mon.attempts[k], mon.attempts[k - 1]
        # a rejection shows as two consecutive attempts without a store in between
        pass
    prev = None
    stored_since = True
    for kind, rec in mon.log:
        if kind == 's':
            stored_since = True
            continue
        if prev is not None and not stored_since:
            nrej += 1
            if not (np.array_equal(rec['x'], prev['x']) and np.array_equal(rec['y'], prev['y'])):
                d = float(np.max(np.abs(rec['x'] - prev['x']))) if len(rec['x']) == len(prev['x']) else -1
                ctx.fail('rejected_step_changed_state', dict(run=brief, t=rec['t'], max_dx=d), sig=sig0)
            if len(rec['f']) == len(prev['f']) and not np.array_equal(rec['f'], prev['f']):
                # the derivative the next attempt starts from (the f0 of the rule) must be the one of the last accepted point
                d = float(np.max(np.abs(rec['f'] - prev['f'])))
                ctx.fail('rejected_step_changed_state', dict(run=brief, t=rec['t'], max_df=d, what='dae.f'), sig=dict(sig0, what='f'))
            want_t = prev['t'] - prev['h'] + rec['h']
            if abs(rec['t'] - want_t) > 1e-12:
                ctx.fail('rejected_step_time_not_rewound', dict(run=brief, t=rec['t'], expected=want_t), sig=sig0)
        prev = rec
        stored_since = False
    ctx.count('steps_checked', nsteps)
    ctx.count('rejected_attempts', nrej)
    if nrej:
        ctx.count('runs_with_rejection')
    # ---- completion -----------------------------------------------------------------------------------------------------
    if ok:
        if float(dae.t) != c['tf']:
            ctx.fail('success_without_reaching_end', dict(run=brief, t=float(dae.t)), sig=sig0)
    elif c['own'] and c['base'] in STABLE and cfg['tstep'] <= 1 / 30 + 1e-12 and not (cfg['shrinkt'] == 0 and cfg['fixt'] == 1):
        ctx.fail('stable_case_not_completed', dict(run=brief, reached=float(dae.t), msg=ss.TDS.err_msg), sig=dict(sig0, base=c['base']))
    else:
        ctx.count('run:stopped_early')
    nev = len(c['events']) + (1 if c['own'] and ss.Toggle.n + ss.Fault.n > 0 else 0)
    if nev >= 1 and nsteps >= 30 and moved > 1e-3:
        ctx.nontrivial(brief, sample=dict(run=brief, steps=nsteps, rejected=nrej, worst_q_over_bound=round(worst, 4),
                                          worst_g_over_bound=round(worst_g, 4), moved=round(moved, 4)))
    ctx.extra.setdefault('worst_ratio', {})
    key = 'q/bound:tol=%g' % tol
    ctx.extra['worst_ratio'][key] = max(ctx.extra['worst_ratio'].get(key, 0.0), round(worst, 4))


def camp_rule(ctx):
    quick = ctx.tier == 'quick'

    def body(c):
        ctx.evaluated()
        check_run(ctx, c)
    if ctx.shard == 0:
        # deterministic cases known (from design exploration) to produce rejected attempts
        for base, cfg in (('ieee14/ieee14_fault.xlsx', dict(method='trapezoid', fixt=1, tstep=1 / 30, g_scale=1, honest=1, tol=1e-10,
                                                             shrinkt=1, sparselib='klu')),
                          ('ieee14/ieee14_fault.xlsx', dict(method='backeuler', fixt=0, tstep=0.05, g_scale=1, honest=0, tol=1e-8,
                                                             shrinkt=1, sparselib='klu'))):
            c = dict(base=base, events=[], tf=1.6, cfg=cfg, own=True)
            ctx.current_case = c
            ctx.evaluated()
            check_run(ctx, c)
    if ctx.shard == 1 % ctx.nshards:
        # anchor: an inertia constant (a time constant of the swing equation) altered during the run
        for m in ('trapezoid', 'backeuler'):
            c = dict(base='kundur/kundur_full.xlsx', tf=1.2, own=False,
                     events=[dict(kind='alter', t=0.3, cls='offgrid', u=1, sel=1, target='gen_M', method='*', amount=0.5),
                             dict(kind='toggle_line', t=0.5, cls='offgrid', u=1, sel=3)],
                     cfg=dict(method=m, fixt=1, tstep=1 / 30, g_scale=1, honest=0, tol=1e-8, shrinkt=1, sparselib='klu'))
            ctx.current_case = c
            ctx.evaluated()
            ctx.count('anchor_time_constant_altered')
            check_run(ctx, c)
        # anchor: a time constant shared by two differential equations of one device (converter lag of REGCA1) altered
        # during the run, followed by the case's own line trip
        c = dict(base='ieee14/ieee14_solar.xlsx', tf=1.4, own=False,
                 events=[dict(kind='alter', t=0.3, cls='offgrid', u=1, sel=0, target='shared_T', method='*', amount=5.0)],
                 cfg=dict(method='trapezoid', fixt=1, tstep=1 / 60, g_scale=1, honest=0, tol=1e-8, shrinkt=1, sparselib='klu'))
        ctx.current_case = c
        ctx.evaluated()
        ctx.count('anchor_shared_time_constant_altered')
        check_run(ctx, c)
    # anchors: every stable stock case with its stock disturbance, both methods, default and tight tolerance
    anchors = [(b, m, tol) for b in STABLE for m in ('trapezoid', 'backeuler') for tol in (1e-4, 1e-8)]
    for k, (b, m, tol) in enumerate(anchors):
        if k % ctx.nshards != ctx.shard:
            continue
        c = dict(base=b, events=[], tf=2.6 if b in ('kundur/kundur_full.xlsx', '5bus/pjm5bus.xlsx') else 1.2, own=True,
                 cfg=dict(method=m, fixt=1, tstep=1 / 30, g_scale=1, honest=0, tol=tol, shrinkt=1, sparselib='klu'))
        ctx.current_case = c
        ctx.evaluated()
        ctx.count('anchor_runs')
        check_run(ctx, c)
    drive(ctx, run_cases(quick), body, 8 if quick else 150, name='rule', chunk=8, shrink=False,
          budget_s=170 if quick else 1500)


# ---- order of accuracy ----------------------------------------------------------------------------------------------------

@st.composite
def order_cases(draw):
    base = draw(st.sampled_from(['kundur/kundur_full.xlsx', 'ieee14/ieee14_full.xlsx', 'kundur/kundur_ieeest.xlsx']))
    return dict(base=base, method=draw(st.sampled_from(['trapezoid', 'backeuler'])),
                sel=draw(st.integers(0, 40)), t=float(round(draw(st.floats(0.05, 0.2)), 3)),
                kind=draw(st.sampled_from(['toggle_pq', 'alter'])))


def order_case(ctx, c):
    tf = 1.0
    ev = [dict(kind=c['kind'], t=c['t'], cls='offgrid', u=1, sel=c['sel'], target='line_x', method='*', amount=1.2)]
    finals = {}
    for h in (1 / 30, 1 / 60, 1 / 480):
        cc = dict(base=c['base'], events=ev, tf=tf, own=False,
                  cfg=dict(method=c['method'], fixt=1, tstep=h, g_scale=1, honest=1, tol=1e-10, shrinkt=1, sparselib='klu'))
        path = os.path.join(build.cases_root(), c['base'])
        ss = build.load_case(path, rc=rc_of(cc), setup=False)
        for m in ('Toggle', 'Fault'):
            if ss.models[m].n:
                ss.models[m].u.v = [0 for _ in ss.models[m].u.v]     # the case's own events are disabled
        c06.materialise(ss, dict(events=ev))
        ss.setup()
        if not ss.PFlow.run():
            return
        ss.TDS.init()
        if not ss.TDS.run():
            ctx.count('order:run_failed')
            return
        finals[h] = ss.dae.x.copy()
        if len(finals[h]) == 0:
            ctx.count('order:no_states')
            return
    e1 = float(np.max(np.abs(finals[1 / 30] - finals[1 / 480])))
    e2 = float(np.max(np.abs(finals[1 / 60] - finals[1 / 480])))
    ctx.count('order:compared')
    if e1 < 1e-7:
        ctx.count('order:transient_too_small')
        return
    ratio = e1 / max(e2, 1e-300)
    need = 2.8 if c['method'] == 'trapezoid' else 1.5
    ctx.extra.setdefault('order_ratios', [])
    ctx.extra['order_ratios'].append([c['base'], c['method'], round(ratio, 3)])
    if ratio < need:
        ctx.fail('error_does_not_shrink_at_method_order', dict(case=c, err_h=e1, err_h2=e2, ratio=ratio, required=need),
                 sig=dict(method=c['method']))
    ctx.nontrivial(dict(order=c), sample=dict(order=c, err_h=e1, err_h2=e2, ratio=round(ratio, 3)))


def camp_order(ctx):
    def body(c):
        ctx.evaluated()
        order_case(ctx, c)
    drive(ctx, order_cases(), body, 2 if ctx.tier == 'quick' else 25, name='order', shrink=False,
          budget_s=170 if ctx.tier == 'quick' else 1500)


CAMPAIGNS = {
    'rule': dict(fn=camp_rule, shards=dict(quick=12, thorough=16)),
    'order': dict(fn=camp_order, shards=dict(quick=4, thorough=8)),
}


def replay(ctx, rec):
    c = rec['case']
    if 'cfg' in c:
        check_run(ctx, c)
    else:
        order_case(ctx, c)
