"""C15 - stored and exported results are the simulated values, complete and labelled."""
import csv
import os

import numpy as np
from hypothesis import strategies as st

from .. import build, sim, sandbox
from ..runner import drive
from . import c06

RULE = ("Base case x mild generated schedule x Output selection (0..3 rows of model / variable / device, including "
        "names that do not exist) x save_every in {1,2,5} x limit_store with max_store in {5,17,900} x single or "
        "resumed run, with output files enabled. Two independent recorders: the callpert monitor (every attempt; "
        "accepted = followed by a converged flag) and a dae.store wrapper copying t, x, y before ANDES stores them. "
        "Oracle: in-memory series, the npz (plain numpy), the lst (own parser), TDSData in file mode, export_csv and a "
        "replay with TDS.run(from_csv=...) must each contain exactly the recorder's rows (all of them, or every "
        "save_every-th accepted step, across off-load chunks) in columns whose label names the variable owning that "
        "address; selection changes which numbers are kept, never their value; get_data / find agree with the "
        "addresses. Non-trivial = run with a selection keeping a strict subset, or >= 2 off-load chunks, or a resumed "
        "segment; distinct by the case JSON.")
ASSUMPTIONS = [
    "Files are written below the worker's scratch directory (output_path option).",
    "csv export prints with numpy's default %.18e-style precision; replayed values are compared with relative 1e-12.",
]

BASES = ['kundur/kundur_full.xlsx', 'ieee14/ieee14_full.xlsx', '5bus/pjm5bus.xlsx']
SELECT = [('GENROU', 'omega', None), ('GENROU', None, None), ('GENROU', 'delta', 0), ('Bus', 'v', None), ('Bus', None, 1),
          ('TGOV1', 'pout', None), ('EXDC2', None, 0), ('GENROU', 'nosuchvar', None), ('NoSuchModel', None, None),
          ('Bus', 'a', 99999), ('PQ', None, None), ('Line', None, None)]


@st.composite
def out_cases(draw):
    base = draw(st.sampled_from(BASES))
    tf = draw(st.sampled_from([0.5, 0.8, 1.2]))
    ev = []
    for _ in range(draw(st.integers(0, 2))):
        kind = draw(st.sampled_from(['toggle_pq', 'alter', 'toggle_line']))
        t = float(round(draw(st.floats(0.05, tf - 0.2)), 4))
        e = dict(kind=kind, t=t, cls='offgrid', u=1, sel=draw(st.integers(0, 60)), target='line_x', method='*', amount=1.05)
        ev.append(e)
        if kind == 'toggle_line':
            ev.append(dict(e, t=float(round(t + 0.05, 4))))
    nsel = draw(st.sampled_from([0, 0, 1, 2, 3]))
    sel = [list(draw(st.sampled_from(SELECT))) for _ in range(nsel)]
    return dict(base=base, tf=tf, events=ev, select=sel, save_every=draw(st.sampled_from([1, 1, 2, 5])),
                limit_store=draw(st.sampled_from([0, 0, 1])), max_store=draw(st.sampled_from([5, 17, 900])),
                cut=draw(st.one_of(st.none(), st.floats(0.1, tf - 0.1).map(lambda x: float(round(x, 3))))),
                tstep=draw(st.sampled_from([1 / 30, 1 / 60])))


def parse_lst(path):
    rows = []
    with open(path) as fh:
        for line in fh:
            parts = [p.strip() for p in line.split(',')]
            if len(parts) >= 3:
                rows.append((int(float(parts[0])), parts[1], ','.join(parts[2:]).strip()))
    return rows


def run_case(ctx, c):
    brief = dict(c)
    path = os.path.join(build.cases_root(), c['base'])
    out_dir = sandbox.scratch_dir('c15-%d' % os.getpid())
    for f in os.listdir(out_dir):
        os.remove(os.path.join(out_dir, f))
    rc = {'PFlow': dict(report=0), 'TDS': dict(no_tqdm=1, tf=c['cut'] if c['cut'] else c['tf'], tstep=c['tstep'], criteria=0,
                                                save_every=c['save_every'], limit_store=c['limit_store'], max_store=c['max_store'])}
    ss = build.load_case(path, rc=rc, setup=False, no_output=False, output_path=out_dir)
    c06.materialise(ss, dict(events=c['events']))
    for k, (m, v, d) in enumerate(c['select']):
        row = dict(idx='OUT%d' % k, model=m)
        if v is not None:
            row['varname'] = v
        ss.add('Output', row)
    ss.setup()
    # device selection needs real idx values: patch after set-up is not possible, so device positions are resolved now
    for k, (m, v, d) in enumerate(c['select']):
        if d is not None and m in ss.models and ss.models[m].n > 0:
            idxv = ss.models[m].idx.v
            ss.Output.dev.v[k] = idxv[d] if d < len(idxv) else 'no-such-device'
    if not ss.PFlow.run():
        ctx.count('skip:pflow_failed')
        return
    mon = sim.Monitor(ss).attach()
    # a direct run() (no separate TDS.init()) is the ordinary user flow: it also stores the t = 0 row
    ok = ss.TDS.run()
    if c['cut'] and ok:
        ss.TDS.config.tf = c['tf']
        ok = ss.TDS.run()
        ctx.count('class:resumed')
    if not ok:
        ctx.count('skip:run_failed')
        return
    # ---- expected selection ---------------------------------------------------------------------------------------
    n, m_ = ss.dae.n, ss.dae.m
    if ss.Output.n > 0:
        ex, ey = set(), set()
        models = ss.exist.pflow_tds
        for mname, var, dev in zip(ss.Output.model.v, ss.Output.varname.v, ss.Output.dev.v):
            if mname not in models:
                continue
            mdl = models[mname]
            if var is not None and not (isinstance(var, float) and var != var) and var not in mdl.cache.all_vars:
                continue
            if var is not None and isinstance(var, float) and var != var:
                var = None
            if dev is not None and isinstance(dev, float) and dev != dev:
                dev = None
            if dev is not None and dev not in mdl.idx.v:
                continue
            items = list(mdl.cache.all_vars.values()) if var is None else [mdl.cache.all_vars[var]]
            for it in items:
                addrs = list(it.a) if dev is None else [it.a[mdl.idx2uid(dev)]]
                (ex if it.v_code == 'x' else ey).update(int(a) for a in addrs)
        xsel, ysel = sorted(ex), sorted(ey)
        if list(ss.Output.xidx) != xsel or list(ss.Output.yidx) != ysel:
            ctx.fail('output_selection_addresses_wrong', dict(case=brief, xidx=list(map(int, ss.Output.xidx))[:20], expected_x=xsel[:20],
                                                              yidx=list(map(int, ss.Output.yidx))[:20], expected_y=ysel[:20]), sig=dict())
    else:
        xsel, ysel = list(range(n)), list(range(m_))
    rec_t = np.array([r['t'] for r in mon.stored])
    rec_x = np.array([r['x'][xsel] for r in mon.stored]) if xsel else np.zeros((len(rec_t), 0))
    rec_y = np.array([r['y'][ysel] for r in mon.stored]) if ysel else np.zeros((len(rec_t), 0))
    # accepted steps from the attempt log: an attempt is accepted iff a store or a converged next attempt follows
    accepted = []
    for k, a in enumerate(mon.attempts):
        nxt = mon.attempts[k + 1] if k + 1 < len(mon.attempts) else None
        if nxt is None or nxt['prev_converged']:
            accepted.append(a['t'])
    acc = sorted(set(accepted))
    sig = dict(save_every=c['save_every'], limit_store=c['limit_store'], selection=bool(c['select']), resumed=bool(c['cut']))
    # ---- stored set vs accepted set -----------------------------------------------------------------------------------
    if c['save_every'] == 1:
        if list(rec_t) != acc:
            ctx.fail('stored_steps_are_not_the_accepted_steps', dict(case=brief, stored=len(rec_t), accepted=len(acc)), sig=sig)
    else:
        if not set(rec_t) <= set(acc):
            ctx.fail('stored_step_was_not_accepted', dict(case=brief), sig=sig)
        want = len(acc) / c['save_every']
        if not (want - 2 <= len(rec_t) <= want + 2):
            ctx.fail('thinning_keeps_wrong_number_of_rows', dict(case=brief, stored=len(rec_t), accepted=len(acc)), sig=sig)
    # ---- files ---------------------------------------------------------------------------------------------------------
    npz = ss.files.npz
    lst = ss.files.lst
    if not (npz and os.path.isfile(npz) and os.path.isfile(lst)):
        ctx.fail('output_files_missing', dict(case=brief, npz=npz, lst=lst), sig=sig)
        return
    data = np.load(npz)['data']
    nz = data.shape[1] - 1 - len(xsel) - len(ysel)
    if data.shape[0] != len(rec_t) or nz < 0:
        ctx.fail('file_rows_differ_from_stored_steps', dict(case=brief, file_rows=int(data.shape[0]), stored=len(rec_t), columns=int(data.shape[1]),
                                                            expected_columns=1 + len(xsel) + len(ysel)), sig=sig)
        return
    exp = np.hstack([rec_t.reshape(-1, 1), rec_x, rec_y])
    got = data[:, :exp.shape[1]]
    if not np.array_equal(got, exp):
        bad = np.argwhere(got != exp)
        r, col = (int(bad[0][0]), int(bad[0][1])) if len(bad) else (-1, -1)
        ctx.fail('file_values_differ_from_simulated', dict(case=brief, row=r, col=col, file=float(got[r, col]), simulated=float(exp[r, col])), sig=sig)
    nchunks = 1 + (len(rec_t) // c['max_store'] if c['limit_store'] else 0)
    # ---- in-memory series ---------------------------------------------------------------------------------------------
    ts = ss.dae.ts
    mem_t = np.array(ts.t)
    if c['limit_store']:
        tail = exp[len(exp) - len(mem_t):] if len(mem_t) else exp[:0]
        ctx.count('class:offloaded' if len(mem_t) < len(exp) else 'class:limit_not_reached')
    else:
        tail = exp
    if len(mem_t) != len(tail) or (len(mem_t) and (not np.array_equal(mem_t, tail[:, 0]) or not np.array_equal(np.array(ts.x), tail[:, 1:1 + len(xsel)])
                                                    or not np.array_equal(np.array(ts.y), tail[:, 1 + len(xsel):]))):
        ctx.fail('memory_series_differs_from_simulated', dict(case=brief, memory_rows=len(mem_t), expected_rows=len(tail)), sig=sig)
    # ---- labels ----------------------------------------------------------------------------------------------------------
    names = parse_lst(lst)
    want_names = ['Time [s]'] + [ss.dae.x_name[a] for a in xsel] + [ss.dae.y_name[a] for a in ysel]
    # independent naming oracle (variable, model, idx of the slot owner)
    owner, owner_fmt = {}, {}
    for mname, mdl in ss.models.items():
        if mdl.n == 0 or not mdl.flags.address:
            continue
        for vname, var in list(mdl.states.items()) + list(mdl.algebs.items()):
            for idx, a in zip(mdl.idx.v, var.a):
                dev = (idx if (isinstance(idx, str) and mname in idx) else '%s %s' % (mname, idx)).replace('_', ' ')
                nm = '%s %s' % (vname, dev)
                owner[(var.v_code, int(a))] = nm
                owner_fmt[(var.v_code, int(a))] = '$%s$ %s' % (var.tex_name, dev)
    indep = ['Time [s]'] + [owner.get(('x', a)) for a in xsel] + [owner.get(('y', a)) for a in ysel]
    names_fmt = [r[2] for r in names]
    names = [(r[0], r[1]) for r in names]
    got_names = [nm for _, nm in names][:len(want_names)]
    # the formatted (LaTeX) label of a column names the same variable of the same device
    indep_fmt = [None] + [owner_fmt.get(('x', a)) for a in xsel] + [owner_fmt.get(('y', a)) for a in ysel]
    for k in range(1, min(len(indep_fmt), len(names_fmt))):
        if indep_fmt[k] is not None and names_fmt[k] != indep_fmt[k]:
            ctx.fail('formatted_label_names_wrong_variable', dict(case=brief, column=k, label=names_fmt[k], owner=indep_fmt[k], plain_label=got_names[k]),
                     sig=sig)
            break
    if got_names != indep:
        k = next((i for i, (g, w) in enumerate(zip(got_names, indep)) if g != w), -1)
        ctx.fail('column_label_names_wrong_variable', dict(case=brief, column=k, label=got_names[k] if 0 <= k < len(got_names) else None,
                                                           owner=indep[k] if 0 <= k < len(indep) else None, n_labels=len(got_names), n_expected=len(indep)), sig=sig)
    if [i for i, _ in names] != list(range(len(names))):
        ctx.fail('lst_indices_not_consecutive', dict(case=brief), sig=sig)
    # ---- loader, csv export, replay -----------------------------------------------------------------------------------------
    from andes.plot import TDSData
    td = TDSData(full_name=os.path.basename(lst), mode='file', path=os.path.dirname(lst))
    ncol = exp.shape[1]
    for col in sorted(set([0, 1, ncol // 2, ncol - 1])):
        if col < ncol:
            v = np.array(td.get_values([col])).ravel()
            if not np.array_equal(v, exp[:, col]):
                ctx.fail('loader_values_differ', dict(case=brief, column=col), sig=sig)
    if len(want_names) > 2:
        q = want_names[1].split()[0]
        found = td.find(q, idx_only=True)
        want = [i for i, nmv in enumerate([nm for _, nm in names]) if q in nmv]
        if sorted(found) != sorted(want):
            ctx.fail('find_returns_wrong_columns', dict(case=brief, query=q, found=list(found)[:10], expected=want[:10]), sig=sig)
    csv_path = os.path.join(out_dir, 'export.csv')
    td.export_csv(csv_path)
    with open(csv_path) as fh:
        rd = list(csv.reader(fh))
    body = np.array([[float(x) for x in row] for row in rd[1:]])
    if body.shape != data.shape or not np.allclose(body[:, :ncol], exp, rtol=1e-12, atol=0):
        ctx.fail('csv_export_differs', dict(case=brief, csv_shape=list(body.shape), data_shape=list(data.shape)), sig=sig)
    # export of a caller-chosen column list (a query result in the caller's order): every labelled column holds the series
    # of that label
    if ncol >= 4:
        rest = list(range(1, ncol))
        pick = [0] + rest[len(rest) // 2:][:6] + rest[:len(rest) // 2][:6]          # deliberately not ascending
        csv2 = os.path.join(out_dir, 'export-subset.csv')
        try:
            td.export_csv(csv2, idx=pick)
            with open(csv2) as fh:
                rd2 = list(csv.reader(fh))
            head2 = rd2[0]
            body2 = np.array([[float(x) for x in row] for row in rd2[1:]])
            for pos, col in enumerate(pick):
                label_ok = head2[pos].strip() == want_names[col].strip() or col == 0
                if not label_ok or body2.shape[0] != exp.shape[0] or not np.allclose(body2[:, pos], exp[:, col], rtol=1e-12, atol=0):
                    ctx.fail('csv_export_column_does_not_hold_its_label', dict(case=brief, position=pos, label=head2[pos], expected_label=want_names[col],
                                                                             requested=pick[:8]), sig=dict(sig, subset_export=True))
                    break
            ctx.count('csv_export:subset_in_caller_order')
        except Exception as e:
            ctx.fail('csv_export_raised', dict(case=brief, error='%s: %s' % (type(e).__name__, str(e)[:150])), sig=dict(sig, subset_export=True))
    # get_data by variable and sub-index (in-memory part)
    if not c['limit_store'] and 'GENROU' in ss.models and ss.GENROU.n > 1:
        var = ss.GENROU.omega
        try:
            gd = ts.get_data(var, a=[1])
        except Exception as e:
            gd = None
        a1 = int(var.a[1])
        if a1 in xsel:
            colx = xsel.index(a1)
            if gd is None or gd.shape[1] != 1 or not np.array_equal(gd[:, 0], rec_x[:, colx]):
                ctx.fail('get_data_returns_other_values', dict(case=brief, var='GENROU.omega', sub=[1]), sig=sig)
    # get_data by variable (all devices) for states and algebraic variables, with and without an Output selection:
    # the columns returned are exactly the stored columns of that variable's selected addresses
    if not c['limit_store']:
        probes = []
        for mname, vname in (('Bus', 'v'), ('Bus', 'a'), ('GENROU', 'omega'), ('GENROU', 'delta'), ('GENROU', 'vd'), ('GENCLS', 'omega'),
                             ('PQ', 'v'), ('TGOV1', 'pout'), ('EXDC2', 'vout')):
            mdl = ss.models.get(mname)
            if mdl is not None and mdl.n > 0 and vname in mdl.__dict__ and len(mdl.__dict__[vname].a):
                probes.append((mname, vname, mdl.__dict__[vname]))
        for mname, vname, var in probes:
            sel, rec = (xsel, rec_x) if var.v_code == 'x' else (ysel, rec_y)
            cols = [sel.index(int(a)) for a in var.a if int(a) in sel]
            try:
                gd = ts.get_data(var)
            except Exception as e:
                ctx.fail('get_data_raised', dict(case=brief, var='%s.%s' % (mname, vname), error='%s: %s' % (type(e).__name__, str(e)[:150])), sig=sig)
                continue
            want = rec[:, cols] if cols else np.zeros((rec.shape[0], 0))
            if gd is None or gd.shape != want.shape or not np.array_equal(gd, want):
                ctx.fail('get_data_returns_other_values', dict(case=brief, var='%s.%s' % (mname, vname), got_shape=list(np.shape(gd)), expected_shape=list(want.shape),
                                                               selected=bool(c['select'])), sig=dict(sig, code=var.v_code, by_variable=True))
            ctx.count('get_data:by_variable:%s:%s' % (var.v_code, 'subset' if (c['select'] and cols and len(cols) < len(sel)) else 'plain'))
    # replay
    if not c['select'] or (xsel or ysel):
        ss2 = build.load_case(path, rc={'PFlow': dict(report=0), 'TDS': dict(no_tqdm=1, tf=c['tf'], criteria=0)}, setup=False)
        c06.materialise(ss2, dict(events=c['events']))
        for k, (m, v, d) in enumerate(c['select']):
            row = dict(idx='OUT%d' % k, model=m)
            if v is not None:
                row['varname'] = v
            ss2.add('Output', row)
        ss2.setup()
        for k in range(ss.Output.n):
            ss2.Output.dev.v[k] = ss.Output.dev.v[k]
        if ss2.PFlow.run():
            try:
                okr = ss2.TDS.run(from_csv=csv_path)
            except Exception as e:
                ctx.fail('csv_replay_raised', dict(case=brief, error='%s: %s' % (type(e).__name__, str(e)[:200])), sig=dict(sig, error=type(e).__name__))
                okr = None
            if okr is not None:
                rt = np.array(ss2.dae.ts.t)
                rx = np.array(ss2.dae.ts.x)
                ry = np.array(ss2.dae.ts.y)
                same_axis = len(rt) == len(rec_t) and np.allclose(rt, rec_t, rtol=1e-12, atol=1e-15)
                if not same_axis:
                    # characterise: which recorded rows are missing from the replay?
                    missing = [k for k, t in enumerate(rec_t) if not np.any(np.abs(rt - t) <= 1e-15 + 1e-12 * abs(t))]
                    ulp_twins = [k for k in range(len(rec_t)) if any(j != k and abs(rec_t[j] - rec_t[k]) < 1e-12 for j in range(len(rec_t)))]
                    only_second = set(missing) <= (set([1]) | set(ulp_twins)) and len(rt) <= len(rec_t)
                    ctx.fail('csv_replay_time_axis_differs', dict(case=brief, replay_rows=len(rt), rows=len(rec_t), missing_rows=missing[:6]),
                             sig=dict(only_second_row_missing=bool(only_second)))
                    # rows that are present must still carry the recorded values (row 0 is affected by the same defect)
                    for k, t in enumerate(rt):
                        if k == 0:
                            continue
                        # recorded rows whose stamp equals this one to within rounding (a run can store two rows one ulp
                        # apart, e.g. 0.4666.. + 1/30 and the end time 0.5): any of them may be the one replayed
                        near = [j for j in range(len(rec_t)) if abs(rec_t[j] - t) <= 1e-12 * (1 + abs(t))] or [int(np.argmin(np.abs(rec_t - t)))]
                        if rx.shape[1] == rec_x.shape[1] and not any(np.allclose(rx[k], rec_x[j], rtol=1e-12, atol=1e-15)
                                                                     and np.allclose(ry[k], rec_y[j], rtol=1e-12, atol=1e-15) for j in near):
                            ctx.fail('csv_replay_values_differ', dict(case=brief, t=float(t)), sig=sig)
                            break
                else:
                    if rx.shape != rec_x.shape or ry.shape != rec_y.shape or not np.allclose(rx, rec_x, rtol=1e-12, atol=1e-15) \
                            or not np.allclose(ry, rec_y, rtol=1e-12, atol=1e-15):
                        ctx.fail('csv_replay_values_differ', dict(case=brief), sig=sig)
                ctx.count('class:replayed')
    subset = ss.Output.n > 0 and (len(xsel) + len(ysel)) < (n + m_) and (len(xsel) + len(ysel)) > 0
    if subset:
        ctx.count('class:strict_subset')
    if subset or (c['limit_store'] and len(mem_t) < len(exp)) or c['cut']:
        ctx.nontrivial(brief, sample=dict(case=brief, rows=len(rec_t), columns=int(exp.shape[1]), in_memory_rows=len(mem_t)))
    for f in os.listdir(out_dir):
        try:
            os.remove(os.path.join(out_dir, f))
        except OSError:
            pass


def camp_out(ctx):
    def body(c):
        ctx.evaluated()
        run_case(ctx, c)
    quick = ctx.tier == 'quick'
    drive(ctx, out_cases(), body, 6 if quick else 120, name='output', chunk=6, shrink=False, budget_s=170 if quick else 1500)


CAMPAIGNS = {
    'output': dict(fn=camp_out, shards=dict(quick=16, thorough=16)),
}


def replay(ctx, rec):
    run_case(ctx, rec['case'])
