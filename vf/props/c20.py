"""C20 - the configuration in effect is the one the user supplied."""
import os

from hypothesis import strategies as st

from .. import build, sandbox
from ..runner import drive

EXHAUSTIVE = False
RULE = ("All configurable fields (System, 3 routines, every model) are enumerated from a default System; each case "
        "draws ~12 (section, field, value) assignments and a supply channel for each (rc file, SECTION.FIELD=VALUE "
        "option, both with different values, or the System dict), constructs a System and compares every assigned "
        "field (value and type under the documented str->int->float->str coercion, precedence option > file > "
        "default) and every *unassigned* field (must keep its default); where a use site is observable the value "
        "used is compared too (model.get_inputs()[field], Solver.sparselib, PFlow tolerance actually reached). "
        "save_config -> System(config_path) must reproduce all fields with types. Values outside declared "
        "alternatives and malformed option strings must raise. Non-trivial = a case with >= 1 value != default "
        "reaching the object through >= 1 channel; distinct by the assignment list.")
ASSUMPTIONS = [
    "Documented coercion: a string that parses as int becomes int, else float, else stays str (Config._set).",
    "The config= dictionary reaches only the System section and is applied before file and options; only option > file > default is asserted.",
    "Unknown sections/fields are accepted silently by ANDES; the property does not speak about them.",
    "Malformed = not exactly one '=' or not exactly one '.' on the left-hand side (the documented SECTION.FIELD=VALUE form).",
]

_catalog = {}


def catalog():
    """{section: {field: (default, alt)}} from a default System."""
    if not _catalog:
        ss = build.new_system()
        objs = [('System', ss)] + list(ss.routines.items()) + list(ss.models.items())
        for name, obj in objs:
            d = obj.config.as_dict(refresh=True)
            if d:
                _catalog[name] = {k: (v, obj.config._alt.get(k)) for k, v in d.items()}
        _catalog['__kinds__'] = dict(routines=list(ss.routines.keys()), models=list(ss.models.keys()))
    return _catalog


def coerce(s):
    """Oracle for the documented coercion of a string value."""
    if not isinstance(s, str):
        return s
    try:
        return int(s)
    except ValueError:
        try:
            return float(s)
        except ValueError:
            return s


SKIP_FIELDS = {('System', 'dime_enabled'), ('System', 'numba'), ('System', 'numba_parallel'), ('System', 'numba_nopython'),
               ('System', 'yapf_pycode'), ('System', 'np_divide'), ('System', 'np_invalid'), ('System', 'seed'),
               ('System', 'save_stats')}


def discrete_alts(alt):
    if isinstance(alt, (tuple, set, list, frozenset)) and not isinstance(alt, str):
        return sorted(alt, key=str)
    return None


@st.composite
def value_for(draw, default, alt):
    """(text value as the user would type it, validity)"""
    alts = discrete_alts(alt)
    if alts is not None:
        if draw(st.integers(0, 5)) == 0:
            bad = draw(st.sampled_from(['7', 'nope', '-3', '2.5']))
            if coerce(bad) in alts:
                return str(alts[0]), True
            return bad, False
        return str(draw(st.sampled_from(alts))), True
    if isinstance(default, bool) or default is None:
        return str(default), True
    if isinstance(default, int):
        return draw(st.sampled_from(['0', '1', '2', '7', '30', '2.0', '1e-08', '0.25'])), True
    if isinstance(default, float):
        return draw(st.sampled_from(['0.5', '1e-08', '2.0', '3', '1e-05', '0.001', '12.75', '1e+20', '-0.25'])), True
    return draw(st.sampled_from(['abc', 'x_1', '12', '1.5', 'NR'])), True


@st.composite
def config_cases(draw):
    cat = catalog()
    sections = [s for s in cat if s != '__kinds__']
    models = cat['__kinds__']['models']
    n = draw(st.integers(1, 12))
    assigns = []
    seen = set()
    for _ in range(n):
        kind = draw(st.sampled_from(['System', 'routine', 'routine', 'model', 'model', 'model']))
        if kind == 'System':
            sec = 'System'
        elif kind == 'routine':
            sec = draw(st.sampled_from([r for r in cat['__kinds__']['routines'] if r in cat]))
        else:
            sec = draw(st.sampled_from([m for m in models if m in cat]))
        field = draw(st.sampled_from(sorted(cat[sec])))
        if (sec, field) in seen or (sec, field) in SKIP_FIELDS:
            continue
        seen.add((sec, field))
        default, alt = cat[sec][field]
        v1, ok1 = draw(value_for(default, alt))
        chan = draw(st.sampled_from(['file', 'file', 'option', 'option', 'both'] + (['dict'] if sec == 'System' else [])))
        a = dict(section=sec, field=field, channel=chan, value=v1, valid=ok1)
        if chan == 'both':
            v2, ok2 = draw(value_for(default, alt))
            a['file_value'] = v2
            a['valid'] = ok1      # the file value is shadowed by the option; only the option value is checked
        assigns.append(a)
    return dict(assigns=assigns, save_roundtrip=draw(st.booleans()))


def values_equal(a, b):
    if type(a) is not type(b):
        return False
    if isinstance(a, float) and a != a and b != b:
        return True
    return a == b


def run_case(ctx, case):
    import andes
    cat = catalog()
    assigns = case['assigns']
    file_sections, options, sysdict = {}, [], {}
    expected = {}
    any_invalid = False
    for a in assigns:
        sec, f = a['section'], a['field']
        if a['channel'] in ('file',):
            file_sections.setdefault(sec, {})[f] = a['value']
        elif a['channel'] == 'option':
            options.append('%s.%s=%s' % (sec, f, a['value']))
        elif a['channel'] == 'both':
            file_sections.setdefault(sec, {})[f] = a['file_value']
            options.append('%s.%s = %s' % (sec, f, a['value']))
        elif a['channel'] == 'dict':
            sysdict[f] = coerce(a['value'])
        expected[(sec, f)] = coerce(a['value'])
        if not a['valid']:
            any_invalid = True
    # model sections are written in full declaration order (see vf.build.write_rc)
    rc = build.write_rc(file_sections) if file_sections else None
    kw = dict(no_output=True)
    if options:
        kw['config_option'] = options
    if sysdict:
        kw['config'] = dict(sysdict)
    sandbox.quiet_andes()
    try:
        if rc is None:
            ss = andes.System(default_config=True, **kw)
        else:
            ss = andes.System(config_path=rc, **kw)
    except Exception as e:
        if any_invalid and isinstance(e, ValueError):
            ctx.count('outcome:invalid_rejected')
            ctx.nontrivial(dict(a=assigns), sample=dict(assigns=assigns, outcome='ValueError: ' + str(e)[:100]))
            return
        # a valid configuration must not be rejected
        nsame = {}
        for a in assigns:
            if a['channel'] in ('option', 'both'):
                nsame[a['section']] = nsame.get(a['section'], 0) + 1
        ctx.fail('valid_configuration_rejected',
                 dict(assigns=assigns, error='%s: %s' % (type(e).__name__, str(e)[:200])),
                 sig=dict(error=type(e).__name__,
                          several_options_same_section=bool(any(v > 1 for v in nsame.values())),
                          rc_file=rc is not None))
        return
    if any_invalid:
        bad = [a for a in assigns if not a['valid']]
        ctx.fail('invalid_value_accepted', dict(assigns=bad), sig=dict(section_kind=kind_of(bad[0]['section'])))
        return
    ctx.count('outcome:constructed')
    objs = dict([('System', ss)] + list(ss.routines.items()) + list(ss.models.items()))
    nondefault = 0
    for sec, fields in cat.items():
        if sec == '__kinds__':
            continue
        cfg = objs[sec].config
        for f, (default, alt) in fields.items():
            got = getattr(cfg, f, None)
            if (sec, f) in expected:
                want = expected[(sec, f)]
                if not values_equal(got, want):
                    a = [x for x in assigns if x['section'] == sec and x['field'] == f][0]
                    ctx.fail('supplied_value_not_in_effect',
                             dict(section=sec, field=f, supplied=a, in_effect=repr(got), expected=repr(want)),
                             sig=dict(channel=a['channel'], section_kind=kind_of(sec)))
                if not values_equal(want, default):
                    nondefault += 1
            else:
                if not values_equal(got, default) and (sec, f) not in SKIP_FIELDS:
                    ctx.fail('unsupplied_field_changed', dict(section=sec, field=f, default=repr(default), in_effect=repr(got)),
                             sig=dict(section_kind=kind_of(sec)))
    # ---- use sites ----------------------------------------------------------------------------------
    for r in ('PFlow', 'TDS', 'EIG'):
        if ('%s' % r, 'sparselib') in expected:
            if objs[r].solver.sparselib != expected[(r, 'sparselib')]:
                ctx.fail('value_not_used', dict(routine=r, field='sparselib', used=objs[r].solver.sparselib,
                                                supplied=expected[(r, 'sparselib')]), sig=dict(field='sparselib'))
    for (sec, f), want in expected.items():
        if sec in ss.models and isinstance(want, (int, float)) and not isinstance(want, bool):
            try:
                inp = ss.models[sec].get_inputs(refresh=True)
            except Exception:
                # some services cannot be evaluated on a model without devices (not a configuration matter)
                ctx.count('use_site:model_input_unavailable')
                continue
            if f in inp and float(inp[f]) != float(want):
                ctx.fail('value_not_used', dict(model=sec, field=f, used=float(inp[f]), supplied=want), sig=dict(field='model_input'))
            ctx.count('use_site:model_input')
    # ---- a second system from the same file, without the options: only the file's values, nothing of the first system -----
    if rc is not None and options and case.get('second_system', True):
        try:
            ssb = andes.System(config_path=rc, no_output=True)
        except ValueError:
            # a file value that is outside the declared alternatives (drawn on purpose for fields an option overrides)
            ssb = None
            ctx.count('outcome:second_system_rejects_file_value')
        objsb = dict([('System', ssb)] + list(ssb.routines.items()) + list(ssb.models.items())) if ssb is not None else {}
        for sec, fields in (cat.items() if ssb is not None else []):
            if sec == '__kinds__':
                continue
            for f, (default, alt) in fields.items():
                got = getattr(objsb[sec].config, f, None)
                want = coerce(file_sections[sec][f]) if f in file_sections.get(sec, {}) else default
                if not values_equal(got, want) and (sec, f) not in SKIP_FIELDS:
                    ctx.fail('configuration_leaks_between_systems',
                             dict(section=sec, field=f, in_effect=repr(got), file_or_default=repr(want),
                                  first_system_options=[o for o in options if o.startswith(sec + '.')][:4]),
                             sig=dict(section_kind=kind_of(sec)))
        ctx.count('outcome:second_system_from_same_file')
    # ---- save -> load ------------------------------------------------------------------------------
    if case.get('save_roundtrip'):
        path = os.path.join(sandbox.scratch_dir('cfg'), 'saved-%d.rc' % os.getpid())
        ss.save_config(path, overwrite=True)
        ss2 = andes.System(config_path=path, no_output=True)
        objs2 = dict([('System', ss2)] + list(ss2.routines.items()) + list(ss2.models.items()))
        for sec, fields in cat.items():
            if sec == '__kinds__':
                continue
            for f in fields:
                v1 = getattr(objs[sec].config, f, None)
                v2 = getattr(objs2[sec].config, f, None)
                if not values_equal(v1, v2):
                    ctx.fail('save_load_changes_value', dict(section=sec, field=f, saved=repr(v1), loaded=repr(v2)),
                             sig=dict(type_saved=type(v1).__name__, type_loaded=type(v2).__name__))
        ctx.count('outcome:save_load_roundtrip')
    if nondefault:
        ctx.nontrivial(dict(a=assigns), sample=dict(assigns=assigns, nondefault=nondefault))


def kind_of(sec):
    k = catalog()['__kinds__']
    return 'System' if sec == 'System' else ('routine' if sec in k['routines'] else 'model')


MALFORMED = ['PFlow.tol', 'PFlow.tol=1e-6=2', 'PFlowtol=1e-6', 'PFlow.tol.x=1', 'a=b=c', '=', 'TDS tf 2', 'System.freq==50']


def run_malformed(ctx, text):
    import andes
    sandbox.quiet_andes()
    try:
        andes.System(default_config=True, no_output=True, config_option=[text], no_undill=True)
    except ValueError:
        ctx.count('malformed:rejected')
        ctx.nontrivial(dict(malformed=text), sample=dict(malformed=text))
        return
    except Exception as e:
        ctx.count('malformed:rejected_other_' + type(e).__name__)
        return
    ctx.fail('malformed_option_accepted', dict(option=text), sig=dict())


def camp_config(ctx):
    def body(case):
        ctx.evaluated()
        for a in case['assigns']:
            ctx.count('channel:' + a['channel'])
            ctx.count('kind:' + kind_of(a['section']))
        run_case(ctx, case)
    drive(ctx, config_cases(), body, 14 if ctx.tier == 'quick' else 300, name='config', chunk=14,
          budget_s=120 if ctx.tier == 'quick' else 1500)
    if ctx.shard == 0:
        for t in MALFORMED:
            ctx.evaluated()
            ctx.current_case = dict(malformed=t)
            run_malformed(ctx, t)


def camp_all_fields(ctx):
    """Exhaustive over fields: every field once through the rc file and once through an option."""
    cat = catalog()
    items = [(s, f) for s in cat if s != '__kinds__' for f in sorted(cat[s]) if (s, f) not in SKIP_FIELDS]
    mine = items[ctx.shard::ctx.nshards]
    from hypothesis import given, settings, HealthCheck, seed as hseed, Phase
    from ..runner import subseed
    group = 25
    for g in range(0, len(mine), group):
        chunk = mine[g:g + group]
        for chan in ('file', 'option'):
            vals = []

            @hseed(subseed(ctx.seed, 'allfields', ctx.shard, g, chan))
            @settings(max_examples=1, database=None, deadline=None, suppress_health_check=list(HealthCheck),
                      phases=[Phase.generate])
            @given(st.data())
            def pick(data):
                vals.clear()
                for (s, f) in chunk:
                    default, alt = cat[s][f]
                    v, ok = data.draw(value_for(default, alt))
                    if not ok:
                        alts = discrete_alts(alt)
                        v = str(alts[-1])
                    vals.append(v)
            pick()
            assigns = []
            used_sections = set()
            for (s, f), v in zip(chunk, vals):
                if chan == 'option' and kind_of(s) == 'model':
                    continue   # a lone option for a model section reorders its keys -> regeneration (slow); sampled in 'config'
                assigns.append(dict(section=s, field=f, channel=chan, value=v, valid=True))
                used_sections.add(s)
            if not assigns:
                continue
            case = dict(assigns=assigns, save_roundtrip=(chan == 'file'))
            ctx.evaluated()
            ctx.current_case = case
            ctx.count('allfields:' + chan, len(assigns))
            run_case(ctx, case)


CAMPAIGNS = {
    'config': dict(fn=camp_config, shards=dict(quick=12, thorough=16)),
    'all_fields': dict(fn=camp_all_fields, shards=dict(quick=4, thorough=8), tiers=('quick', 'thorough')),
}


def replay(ctx, rec):
    case = rec['case']
    if 'malformed' in case:
        run_malformed(ctx, case['malformed'])
    else:
        run_case(ctx, case)
