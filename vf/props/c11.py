"""C11 - per-unit conversion and parameter alteration keep both value bases consistent."""
import os

import numpy as np
from hypothesis import strategies as st

from .. import build, sandbox
from ..oracle import pu as opu
from ..runner import drive

RULE = ("(a) coefficients: stock cases re-built from their rows with every device base (Sn, Vn, Vn1, Vdcn), every bus "
        "kV and the system MVA multiplied by drawn factors; after setup every parameter flagged power/ipower/voltage/"
        "current/z/y/dc_*/r/g must satisfy v == vin*k with k from the textbook ratio (coverage table of flags reached), and the value an export writes for it (as_dict(vin=True), list-valued parameters included) is the supplied input value. "
        "(b) histories: a drawn sequence of Model.alter / Group.alter (attr v and vin) / Model.set / reset / PFlow.run / "
        "TDS.init / dump(json|xlsx)->reload on one system, checked after every step against the machine's own (vin, v) "
        "table: v == vin*k, the array the equations read holds the new value, dae.Tf and the integrator mass matrix follow "
        "an altered time constant, a dump (also the second one) writes the table's vin, reset restores v = vin*k, and "
        "'alter then simulate' equals 'load the altered file then simulate'. Non-trivial (b) = history with >= 1 alter "
        "before power flow or after it, and >= 1 export; distinct by the operation list.")
ASSUMPTIONS = [
    "Base convention as documented: device base (Sn, Vn or Vn1 of the from side), bus kV of `bus`/`bus1`, system MVA; models without Sn use the system base; without Vn the bus base.",
    "xlsx stores <= 17 significant digits: reloaded values are compared with relative 1e-13.",
    "Model.set is documented not to touch vin; only v is expected to change.",
]


def rel_close(a, b, rtol=1e-12):
    a = np.asarray(a, dtype=float)
    b = np.asarray(b, dtype=float)
    with np.errstate(all='ignore'):
        return np.abs(a - b) <= rtol * np.maximum(1e-300, np.maximum(np.abs(a), np.abs(b))) + 1e-300


# ---------------------------------------------------------------------------------------------
# (a) coefficients
# ---------------------------------------------------------------------------------------------

def coefficient_case(ctx, case):
    path = os.path.join(build.cases_root(), case['path'])
    try:
        ss0 = build.load_case(path, setup=False)
    except Exception:
        ctx.count('coef:load_error')
        return
    rows = build.rows_of(ss0, vin=False)      # before setup: v holds the input values
    fac = case['factors']

    def f(k):
        return fac[k % len(fac)]
    n = 0
    for name, rr in rows.items():
        for r in rr:
            for b in ('Sn', 'Vn', 'Vn1', 'Vn2', 'Vdcn', 'Vdcn1', 'Idcn'):
                if b in r and isinstance(r[b], (int, float)) and r[b] == r[b] and r[b] != 0:
                    n += 1
                    r[b] = float(r[b]) * f(n)
    mva = case['mva']
    cwd = os.getcwd()
    try:
        os.chdir(os.path.dirname(path))
        ss = build.system_from_rows(rows, rc={'System': dict(mva=mva), 'PFlow': dict(report=0)})
    except Exception as e:
        ctx.count('coef:build_raised_' + type(e).__name__)
        return
    finally:
        os.chdir(cwd)
    if not ss.is_setup:
        ctx.count('coef:setup_failed')
        return
    Sb = float(ss.config.mva)
    busVn = {i: float(v) for i, v in zip(ss.Bus.idx.v, ss.Bus.Vn.v)}
    nodeV = {i: float(v) for i, v in zip(ss.Node.idx.v, ss.Node.Vdcn.v)} if ss.Node.n else {}
    ctx.extra.setdefault('flags_reached', {})
    checked = 0
    for name, mdl in ss.models.items():
        if mdl.n == 0:
            continue
        for kind in opu.KINDS:
            for pname, par in mdl.find_param(kind).items():
                if not hasattr(par, 'vin') or par.vin is None:
                    continue
                for k in range(mdl.n):
                    Sn = float(mdl.Sn.v[k]) if 'Sn' in mdl.__dict__ else Sb
                    Vb = Vn = 1.0
                    if 'bus' in mdl.__dict__:
                        Vb = busVn.get(mdl.bus.v[k])
                        if Vb is None:
                            continue
                        Vn = float(mdl.Vn.v[k]) if 'Vn' in mdl.__dict__ else Vb
                    elif 'bus1' in mdl.__dict__:
                        Vb = busVn.get(mdl.bus1.v[k])
                        if Vb is None:
                            continue
                        Vn = float(mdl.Vn1.v[k]) if 'Vn1' in mdl.__dict__ else Vb
                    Vdcb = Vdcn = 1.0
                    Idcn = None
                    if 'node' in mdl.__dict__:
                        Vdcb = nodeV.get(mdl.node.v[k], 1.0)
                        Vdcn = float(mdl.Vdcn.v[k]) if 'Vdcn' in mdl.__dict__ else Vdcb
                        Idcn = float(mdl.Idcn.v[k]) if 'Idcn' in mdl.__dict__ else None
                    elif 'node1' in mdl.__dict__:
                        Vdcb = nodeV.get(mdl.node1.v[k], 1.0)
                        Vdcn = float(mdl.Vdcn1.v[k]) if 'Vdcn1' in mdl.__dict__ else Vdcb
                        Idcn = float(mdl.Idcn.v[k]) if 'Idcn' in mdl.__dict__ else None
                    kk = opu.coefficient(kind, Sn, Vn, Sb, Vb, Vdcn, Vdcb, Idcn, None)
                    vin = par.vin[k]
                    v = par.v[k]
                    if np.ndim(vin) > 0 or isinstance(vin, (list, str)):
                        continue
                    if not np.isfinite(vin) or abs(vin) >= 1e8:
                        continue
                    if not rel_close(v, vin * kk, 1e-11):
                        ctx.fail('per_unit_coefficient_wrong',
                                 dict(case=case, model=name, param=pname, kind=kind, device=repr(mdl.idx.v[k]), vin=float(vin),
                                      v=float(v), expected=float(vin * kk), bases=dict(Sn=Sn, Vn=Vn, Sb=Sb, Vb=Vb)),
                                 sig=dict(model=name, param=pname, kind=kind))
                    checked += 1
                key = '%s.%s:%s' % (name, pname, kind)
                ctx.extra['flags_reached'][key] = ctx.extra['flags_reached'].get(key, 0) + mdl.n
                ctx.nontrivial(dict(flag=key), sample=dict(model=name, param=pname, kind=kind, case=case['path']))
    ctx.count('coef:entries_checked', checked)
    # ---- what an export writes for a flagged parameter is the input value that was supplied (also list-valued ones) -----------
    def same(a, b):
        try:
            if isinstance(a, str) or isinstance(b, str):
                a2 = np.asarray(eval(a, {'__builtins__': {}}, {})) if isinstance(a, str) else np.asarray(a)
                b2 = np.asarray(eval(b, {'__builtins__': {}}, {})) if isinstance(b, str) else np.asarray(b)
            else:
                a2, b2 = np.asarray(a), np.asarray(b)
            a2, b2 = a2.astype(float).ravel(), b2.astype(float).ravel()
            return a2.shape == b2.shape and bool(np.all((a2 == b2) | (np.isnan(a2) & np.isnan(b2)) | (np.abs(a2 - b2) <= 1e-12 * np.abs(b2))))
        except Exception:
            return None
    nexp = 0
    for name, mdl in ss.models.items():
        if mdl.n == 0 or name not in rows:
            continue
        flagged = set()
        for kind in opu.KINDS:
            flagged.update(mdl.find_param(kind))
        if not flagged:
            continue
        exported = mdl.as_dict(vin=True)
        supplied = {r['idx']: r for r in rows[name]}
        for pname in sorted(flagged):
            if pname not in exported:
                continue
            for k, idx in enumerate(mdl.idx.v):
                r = supplied.get(idx)
                if r is None or pname not in r or r[pname] is None:
                    continue
                ok = same(exported[pname][k], r[pname])
                if ok is None:
                    continue
                nexp += 1
                if not ok:
                    ctx.fail('export_writes_other_than_input_value',
                             dict(case=case, model=name, param=pname, device=repr(idx), exported=repr(exported[pname][k])[:80],
                                  supplied=repr(r[pname])[:80]), sig=dict(model=name, param=pname))
    ctx.count('coef:exported_values_checked', nexp)


@st.composite
def coefficient_cases(draw, paths):
    return dict(path=draw(st.sampled_from(paths)), mva=draw(st.sampled_from([100.0, 50.0, 1000.0, 37.5])),
                factors=[draw(st.sampled_from([0.5, 0.9, 1.1, 2.0, 3.0, 1.0])) for _ in range(7)])


def camp_coef(ctx):
    quick = ctx.tier == 'quick'
    paths = []
    for p in build.stock_cases(('.xlsx', '.json')):
        rel = os.path.relpath(p, build.cases_root())
        if os.path.getsize(p) > (150000 if quick else 700000) or rel.startswith(('EI', 'ei')):
            continue
        paths.append(rel)

    def body(case):
        ctx.evaluated()
        coefficient_case(ctx, case)
    if ctx.shard == 0:
        # anchor: list-valued admittance parameters (switched-shunt blocks) on a device base different from the system base
        for rel in ('ieee14/ieee14_shuntsw.json', 'ieee14/ieee14_shuntsw.xlsx'):
            if rel in paths:
                case = dict(path=rel, factors=[1.0, 0.5, 2.0], mva=100.0)
                ctx.current_case = case
                ctx.count('coef:anchor_list_valued_parameters')
                body(case)
    drive(ctx, coefficient_cases(paths), body, 8 if quick else 100, name='coef', shrink=False,
          budget_s=120 if quick else 1200)


# ---------------------------------------------------------------------------------------------
# (b) histories
# ---------------------------------------------------------------------------------------------

BASE_CASES = ['kundur/kundur_full.xlsx', 'ieee14/ieee14_full.xlsx', '5bus/pjm5bus.xlsx', 'wscc9/wscc9.xlsx', 'ieee14/ieee14_solar.xlsx',
              'ieee14/ieee14_regcp1.xlsx']
# (model, param, needs_pflow_before) : static parameters must be altered before the power flow to have a clean twin
ALTERABLE = [('PQ', 'p0', 'pre'), ('PQ', 'q0', 'pre'), ('Line', 'x', 'pre'), ('Line', 'b', 'pre'), ('Shunt', 'b', 'pre'),
             ('PV', 'p0', 'pre'), ('PV', 'v0', 'pre'),
             ('GENROU', 'M', 'any'), ('GENROU', 'D', 'any'), ('GENROU', 'xd', 'prepost'), ('GENCLS', 'M', 'any'),
             ('GENCLS', 'D', 'any'), ('TGOV1', 'T1', 'any'), ('TGOV1', 'R', 'prepost'), ('EXDC2', 'TA', 'any'),
             ('EXDC2', 'KA', 'prepost'), ('EXST1', 'TA', 'any'), ('ESST3A', 'TA', 'any'), ('IEEEG1', 'T1', 'any'),
             # time constants shared by several states of one device
             ('REGCA1', 'Tg', 'any'), ('REPCA1', 'Tfltr', 'any'), ('REGCP1', 'Tg', 'any'), ('REGCA1', 'Tg', 'any'), ('REPCA1', 'Tfltr', 'any')]


@st.composite
def histories(draw):
    base = draw(st.sampled_from(BASE_CASES))
    ops = []
    phase = 'pre'
    n = draw(st.integers(2, 9))
    for _ in range(n):
        kind = draw(st.sampled_from(['alter', 'alter', 'alter', 'set', 'advance', 'dump', 'dump', 'reset']))
        if kind == 'alter' or kind == 'set':
            m, p, when = draw(st.sampled_from(ALTERABLE))
            ops.append(dict(op=kind, model=m, param=p, when=when, pos=draw(st.integers(0, 30)),
                            factor=draw(st.sampled_from([0.5, 0.8, 1.25, 2.0, 3.0])),
                            attr=draw(st.sampled_from(['v', 'v', 'vin'])), via=draw(st.sampled_from(['model', 'group']))))
        elif kind == 'advance':
            ops.append(dict(op='advance'))
        elif kind == 'dump':
            ops.append(dict(op='dump', fmt=draw(st.sampled_from(['json', 'xlsx']))))
        else:
            ops.append(dict(op='reset'))
    return dict(base=base, ops=ops, sim=draw(st.booleans()))


def history_case(ctx, h):
    import andes
    path = os.path.join(build.cases_root(), h['base'])
    rc = {'PFlow': dict(report=0), 'TDS': dict(no_tqdm=1, tf=0.5)}
    ss = build.load_case(path, rc=rc)
    table = {}      # (model, param, idx) -> vin expected
    phase = 'pre'   # pre -> pf -> tds
    feats = set()
    scratch = sandbox.scratch_dir('c11')
    ndump = 0
    sig_base = dict()

    def coeff(mdl, par, uid):
        return float(par.pu_coeff[uid])

    def check_table(label):
        for (m, p, idx), (vin_e, v_e) in table.items():
            mdl = ss.models[m]
            uid = mdl.idx2uid(idx)
            par = mdl.__dict__[p]
            if vin_e is not None and not rel_close(par.vin[uid], vin_e):
                ctx.fail('input_value_not_updated', dict(history=h, after=label, model=m, param=p, idx=repr(idx), vin=float(par.vin[uid]), expected=vin_e),
                         sig=dict(after=label.split(':')[0]))
            if not rel_close(par.v[uid], v_e):
                ctx.fail('system_value_inconsistent', dict(history=h, after=label, model=m, param=p, idx=repr(idx), v=float(par.v[uid]), expected=v_e),
                         sig=dict(after=label.split(':')[0]))
            # before the first routine initialisation no residual is evaluated; inputs are re-bound at init
            if phase != 'pre' and mdl.n and len(mdl._input) and p in mdl._input:
                if not rel_close(mdl._input[p][uid], v_e):
                    ctx.fail('equations_read_old_value', dict(history=h, after=label, model=m, param=p, idx=repr(idx),
                                                              read=float(mdl._input[p][uid]), expected=v_e), sig=dict(after=label.split(':')[0]))
            for st_ in mdl.states.values():
                if st_.t_const is par and len(st_.a) > 0 and phase != 'pre':
                    a = int(st_.a[uid])
                    if a < len(ss.dae.Tf) and phase == 'tds' and not rel_close(ss.dae.Tf[a], v_e):
                        ctx.fail('time_constant_not_propagated', dict(history=h, after=label, model=m, param=p, idx=repr(idx),
                                                                      Tf=float(ss.dae.Tf[a]), expected=v_e), sig=dict(where='dae.Tf'))
                    if phase == 'tds' and ss.TDS.Teye is not None and not rel_close(ss.TDS.Teye[a, a], v_e):
                        ctx.fail('time_constant_not_propagated', dict(history=h, after=label, model=m, param=p, idx=repr(idx),
                                                                      Teye=float(ss.TDS.Teye[a, a]), expected=v_e), sig=dict(where='TDS.Teye'))

    for k, op in enumerate(h['ops']):
        label = '%s:%d' % (op['op'], k)
        if op['op'] in ('alter', 'set'):
            m, p = op['model'], op['param']
            mdl = ss.models[m]
            if mdl.n == 0:
                continue
            if op['when'] == 'pre' and phase != 'pre':
                continue
            if op['when'] == 'prepost' and phase == 'tds':
                continue
            idx = mdl.idx.v[op['pos'] % mdl.n]
            uid = mdl.idx2uid(idx)
            par = mdl.__dict__[p]
            kcoef = coeff(mdl, par, uid)
            old_vin = float(par.vin[uid])
            if op['op'] == 'alter':
                if op['attr'] == 'v':      # value in the input base
                    new_vin = old_vin * op['factor'] if old_vin != 0 else 0.1 * op['factor']
                    arg = new_vin
                else:                       # value in the system base
                    new_v = float(par.v[uid]) * op['factor'] if par.v[uid] != 0 else 0.1 * op['factor']
                    new_vin = new_v / kcoef
                    arg = new_v
                try:
                    if op['via'] == 'group':
                        ss.groups[mdl.group].alter(p, idx, arg, attr=op['attr'])
                    else:
                        mdl.alter(p, idx, arg, attr=op['attr'])
                except Exception as e:
                    ctx.fail('alter_raised', dict(history=h, step=k, error='%s: %s' % (type(e).__name__, str(e)[:200])),
                             sig=dict(error=type(e).__name__, phase=phase))
                table[(m, p, idx)] = (new_vin, new_vin * kcoef)
                feats.add('alter_' + phase)
                if phase != 'pre' or True:
                    # another model holds a copy of this parameter (ExtParam): the copy was taken at set-up
                    for om in ss.models.values():
                        if om.n == 0 or om is mdl:
                            continue
                        for ep in om.params_ext.values():
                            if ep.src == p and ep.model in (m, mdl.group):
                                feats.add('altered_param_copied_by_%s' % om.class_name)
                ctx.count('op:alter:' + phase + ':' + op['attr'] + ':' + op['via'])
            else:
                new_v = float(par.v[uid]) * op['factor'] if par.v[uid] != 0 else 0.1
                mdl.set(p, idx, 'v', new_v)
                table[(m, p, idx)] = (table.get((m, p, idx), (old_vin, None))[0], new_v)
                feats.add('set')
                ctx.count('op:set:' + phase)
            check_table(label)
        elif op['op'] == 'advance':
            try:
                if phase == 'pre':
                    if ss.PFlow.run():
                        phase = 'pf'
                elif phase == 'pf':
                    ss.TDS.init()
                    phase = 'tds'
            except Exception as e:
                ctx.count('advance_raised:' + type(e).__name__)
                return
            ctx.count('op:advance->' + phase)
            check_table(label)
        elif op['op'] == 'dump':
            ndump += 1
            out = os.path.join(scratch, 'dump-%d-%d.%s' % (os.getpid(), ndump, op['fmt']))
            if os.path.exists(out):
                os.remove(out)
            ok = andes.io.dump(ss, op['fmt'], full_path=out, overwrite=True)
            feats.add('dump')
            ctx.count('op:dump:' + op['fmt'] + (':second' if ndump > 1 else ''))
            cwd = os.getcwd()
            try:
                os.chdir(os.path.dirname(path))
                ss2 = build.load_case(out, rc=rc, setup=False)
            finally:
                os.chdir(cwd)
            rt = 1e-13 if op['fmt'] == 'xlsx' else 1e-15
            for (m, p, idx), (vin_e, v_e) in table.items():
                if vin_e is None:
                    continue
                mdl2 = ss2.models[m]
                uid2 = mdl2.idx2uid(idx)
                got = mdl2.__dict__[p].v[uid2]      # before setup: v holds the file's (input) value
                # a `set` after the last alter does not change the input value by documentation
                if not rel_close(got, vin_e, rt):
                    ctx.fail('export_writes_stale_value', dict(history=h, step=k, fmt=op['fmt'], nth_dump=ndump, model=m, param=p, idx=repr(idx),
                                                               written=float(got), expected=vin_e),
                             sig=dict(fmt=op['fmt'], second_dump=ndump > 1))
            os.remove(out)
        elif op['op'] == 'reset':
            if phase == 'tds':
                continue
            ss.reset()
            phase = 'pre'
            feats.add('reset')
            ctx.count('op:reset')
            # reset restores v = vin * k (a `set` value is discarded; altered input values stay)
            for key, (vin_e, v_e) in list(table.items()):
                m, p, idx = key
                mdl = ss.models[m]
                uid = mdl.idx2uid(idx)
                par = mdl.__dict__[p]
                table[key] = (vin_e, vin_e * float(par.pu_coeff[uid]))
            check_table(label)
    # ---- alter-then-simulate == load-altered-file-then-simulate -----------------------------------------------
    if h.get('sim') and table and 'set' not in feats:
        try:
            if phase == 'pre':
                if not ss.PFlow.run():
                    return
                phase = 'pf'
            out = os.path.join(scratch, 'twin-%d.json' % os.getpid())
            andes.io.dump(ss, 'json', full_path=out, overwrite=True)
            ok1 = ss.TDS.run()
            cwd = os.getcwd()
            try:
                os.chdir(os.path.dirname(path))
                tw = build.load_case(out, rc=rc)
            finally:
                os.chdir(cwd)
            os.remove(out)
            if not tw.PFlow.run():
                return
            if phase == 'tds':
                # mirror the call path: a separate TDS.init() followed by run() takes the resume branch, which is
                # not step-for-step identical to a direct run() away from equilibrium (examined under C04/C14)
                tw.TDS.init()
            ok2 = tw.TDS.run()
        except Exception as e:
            ctx.count('sim_raised:' + type(e).__name__)
            return
        ctx.count('sim:twin_compared')
        if bool(ok1) != bool(ok2):
            ctx.fail('altered_run_differs_from_reloaded_run', dict(history=h, ok_altered=bool(ok1), ok_reloaded=bool(ok2)), sig=dict(kind='verdict'))
        elif ok1:
            x1, x2 = ss.dae.x, tw.dae.x
            if len(x1) == len(x2) and len(x1) > 0:
                d = float(np.max(np.abs(x1 - x2) / (1 + np.abs(x2))))
                if d > 1e-6:
                    j = int(np.argmax(np.abs(x1 - x2) / (1 + np.abs(x2))))
                    ctx.fail('altered_run_differs_from_reloaded_run',
                             dict(history=h, max_rel_diff=d, state=ss.dae.x_name[j], altered=float(x1[j]), reloaded=float(x2[j])),
                             sig=dict(kind='trajectory', altered_param_copied_elsewhere=any(f.startswith('altered_param_copied_by_') for f in feats)))
        feats.add('sim')
    if any(f.startswith('alter_') for f in feats) and 'dump' in feats:
        ctx.nontrivial(dict(h=h), sample=dict(base=h['base'], ops=h['ops'][:8], features=sorted(feats)))
    for f in feats:
        ctx.count('history:' + f)


def camp_hist(ctx):
    def body(h):
        ctx.evaluated()
        history_case(ctx, h)
    quick = ctx.tier == 'quick'
    drive(ctx, histories(), body, 10 if quick else 150, name='hist', chunk=10, budget_s=160 if quick else 1500)


CAMPAIGNS = {
    'coefficients': dict(fn=camp_coef, shards=dict(quick=6, thorough=8)),
    'histories': dict(fn=camp_hist, shards=dict(quick=10, thorough=16)),
}


def replay(ctx, rec):
    c = rec['case']
    if 'ops' in c:
        history_case(ctx, c)
    else:
        coefficient_case(ctx, c)
