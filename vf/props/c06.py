"""C06 - scheduled events fire exactly once at their exact time; the time grid is exact."""
import os

import numpy as np
from hypothesis import strategies as st

from .. import build, sim
from ..runner import drive

RULE = ("Base cases (kundur_full, ieee14_full, wscc9, pjm5bus with their own events) x generated schedules of 1..6 "
        "events over Toggle (Line, PQ), Fault apply/clear and Alter (+,-,*,/,=), enabled or disabled, with times drawn "
        "from labelled classes (on the step grid, off grid, t0, tf, beyond tf, negative/disabled, > 10 s, exactly "
        "coincident pairs, pairs closer than 2e-4 s, equal to a segment boundary) x tstep x fixed/variable step x TDS options refresh_event and check_conn x a "
        "drawn split of [t0, tf] into 1..3 resumed segments. Observation: wrapped TimerParam callbacks, a wrapper of "
        "dae.store sampling the targeted fields at every stored step. Oracle: a pure-Python schedule model: one firing "
        "per enabled in-range event at dae.t == t_e (bitwise), none for disabled / out-of-range ones, the target changes "
        "between the stamp t_e and the next stamp and nowhere else, final values equal the fold of the schedule; "
        "stamps strictly increasing, every fired t_e is a stamp, no step straddles an event, t[-1] == tf when the run "
        "succeeds. Non-trivial = schedule with >= 2 enabled in-range events of which >= 1 off the step grid; distinct "
        "by the schedule JSON.")
ASSUMPTIONS = [
    "If a run stops early (returns False), only events up to the last accepted time are judged.",
    "Coincident events on the same target are only generated when their effects commute (toggles).",
]

BASES = ['kundur/kundur_full.xlsx', 'ieee14/ieee14_full.xlsx', 'kundur/kundur_ieeest.xlsx', '5bus/pjm5bus.xlsx']


@st.composite
def schedules(draw):
    base = draw(st.sampled_from(BASES))
    tstep = draw(st.sampled_from([1 / 30, 1 / 30, 1 / 60, 0.01, 0.05]))
    fixt = draw(st.sampled_from([1, 1, 0]))
    long_run = draw(st.integers(0, 9)) == 0
    tf = 10.5 if long_run else draw(st.sampled_from([0.5, 1.0, 1.3, 2.0]))
    nseg = draw(st.sampled_from([1, 1, 2, 3]))
    bounds = sorted(set(float(round(draw(st.floats(0.05, tf - 0.05)), 3)) for _ in range(nseg - 1))) + [tf]
    n = draw(st.integers(1, 6))
    events = []

    def time_of(cls):
        if cls == 'grid':
            return float(draw(st.integers(1, max(1, int(tf / tstep) - 1))) * tstep)
        if cls == 'offgrid':
            return float(round(draw(st.floats(0.01, tf - 0.01)), 4))
        if cls == 'fullprec':       # a time with all its binary digits (a user computing 5/6 or k/30 + delay)
            return float(draw(st.floats(0.01, tf - 0.01)))
        if cls == 't0':
            return 0.0
        if cls == 'tf':
            return float(tf)
        if cls == 'beyond':
            return float(tf + draw(st.sampled_from([1e-4, 0.5, 3.0])))
        if cls == 'negative':
            return -1.0
        if cls == 'late':
            return float(round(draw(st.floats(10.0, tf - 0.01)), 4)) if tf > 10.1 else float(round(draw(st.floats(0.01, tf - 0.01)), 4))
        if cls == 'boundary':
            return float(draw(st.sampled_from(bounds)))
        if cls == 'near_boundary':
            return float(draw(st.sampled_from(bounds)) + draw(st.sampled_from([-1e-4, 1e-4])))
        raise ValueError(cls)

    classes = ['grid', 'offgrid', 'offgrid', 'fullprec', 'fullprec', 't0', 'tf', 'beyond', 'negative', 'late', 'boundary', 'near_boundary']
    for k in range(n):
        cls = draw(st.sampled_from(classes))
        t = time_of(cls)
        kind = draw(st.sampled_from(['toggle_line', 'toggle_line', 'toggle_pq', 'alter', 'alter', 'fault', 'timeseries']))
        u = draw(st.sampled_from([1, 1, 1, 0]))
        ev = dict(kind=kind, t=t, cls=cls, u=u, sel=draw(st.integers(0, 60)))
        if kind == 'alter':
            ev['target'] = draw(st.sampled_from(['line_x', 'pq_p0', 'line_b']))
            ev['method'] = draw(st.sampled_from(['+', '-', '*', '/', '=']))
            ev['amount'] = draw(st.sampled_from([0.5, 1.1, 0.01, 2.0]))
        if kind == 'fault':
            ev['dur'] = draw(st.sampled_from([None, 0.02, 0.05]))
        if kind == 'timeseries':
            ev['amount'] = draw(st.sampled_from([0.05, 0.11, 0.3]))
        events.append(ev)
        pair = draw(st.sampled_from(['none', 'none', 'coincident', 'near', 'reclose']))
        if pair != 'none' and kind.startswith('toggle') and len(events) < 7:
            e2 = dict(ev)
            e2['cls'] = ev['cls'] + '+' + pair
            if pair == 'near':
                e2['t'] = t + draw(st.sampled_from([5e-5, 1.5e-4]))
            elif pair == 'reclose':
                e2['t'] = float(round(t + draw(st.sampled_from([0.02, 0.05, 0.1])), 4))
            events.append(e2)
    # documented TDS options that touch event handling: refresh the event table at every step, no connectivity re-check
    opts = dict(refresh_event=draw(st.sampled_from([0, 0, 1])), check_conn=draw(st.sampled_from([1, 1, 0])))
    return dict(base=base, tstep=tstep, fixt=fixt, tf=tf, bounds=bounds, events=events, opts=opts)


SHARED_T = [('REGCA1', 'Tg'), ('REPCA1', 'Tfltr'), ('REGCP1', 'Tg'), ('REGCV1', 'Tc')]


def materialise(ss, c):
    """Translate abstract events into devices (before setup). Returns the list of concrete event records."""
    lines = list(ss.Line.idx.v)
    pqs = list(ss.PQ.idx.v)
    buses = list(ss.Bus.idx.v)
    out = []
    for k, e in enumerate(c['events']):
        rec = dict(e)
        if e['kind'] == 'toggle_line':
            rec.update(model='Line', dev=lines[e['sel'] % len(lines)], field='u')
            ss.add('Toggle', dict(idx='VT%d' % k, model='Line', dev=rec['dev'], t=e['t'], u=e['u']))
            rec.update(evmodel='Toggle', evidx='VT%d' % k, timer='t')
        elif e['kind'] == 'toggle_pq':
            rec.update(model='PQ', dev=pqs[e['sel'] % len(pqs)], field='u')
            ss.add('Toggle', dict(idx='VT%d' % k, model='PQ', dev=rec['dev'], t=e['t'], u=e['u']))
            rec.update(evmodel='Toggle', evidx='VT%d' % k, timer='t')
        elif e['kind'] == 'alter':
            if e['target'] == 'pq_p0':
                rec.update(model='PQ', dev=pqs[e['sel'] % len(pqs)], field='p0')
            elif e['target'] == 'line_b':
                rec.update(model='Line', dev=lines[e['sel'] % len(lines)], field='b')
            elif e['target'] == 'shared_T' and any(getattr(ss, m).n for m, f in SHARED_T):
                # a time constant that is the time constant of several differential equations of one device
                cands = [(m, f) for m, f in SHARED_T if getattr(ss, m).n]
                m, f = cands[e['sel'] % len(cands)]
                gidx = list(getattr(ss, m).idx.v)
                rec.update(model=m, dev=gidx[(e['sel'] // 7) % len(gidx)], field=f)
            elif e['target'] == 'gen_M' and (ss.GENROU.n or ss.GENCLS.n):
                gm = 'GENROU' if ss.GENROU.n else 'GENCLS'
                gidx = list(ss.models[gm].idx.v)
                rec.update(model=gm, dev=gidx[e['sel'] % len(gidx)], field='M')
            else:
                rec.update(model='Line', dev=lines[e['sel'] % len(lines)], field='x')
            ss.add('Alter', dict(idx='VA%d' % k, model=rec['model'], dev=rec['dev'], src=rec['field'], attr='v',
                                 method=e['method'], amount=e['amount'], t=e['t'], u=e['u']))
            rec.update(evmodel='Alter', evidx='VA%d' % k, timer='t')
        elif e['kind'] == 'timeseries':
            # a time-series update: one exact-time stamp that sets the (static) active power datum of a load
            from .. import sandbox
            dev = pqs[e['sel'] % len(pqs)]
            tsf = os.path.join(sandbox.scratch_dir('c06ts'), 'ts-%d-%d.csv' % (os.getpid(), k))
            with open(tsf, 'w') as fh:
                fh.write('t,val\n%r,%r\n' % (float(e['t']), float(e['amount'])))
            ss.add('TimeSeries', dict(idx='VS%d' % k, mode=1, path=tsf, sheet='data', fields='val', tkey='t', model='PQ', dev=dev,
                                      dests='p0', u=e['u']))
            rec.update(model='PQ', dev=dev, field='p0', evmodel='TimeSeries', evidx='VS%d' % k, timer='t', method='=', amount=float(e['amount']))
        elif e['kind'] == 'fault':
            bus = buses[e['sel'] % len(buses)]
            d = dict(idx='VF%d' % k, bus=bus, tf=e['t'], u=e['u'], xf=0.2)
            if e.get('dur') is not None:
                d['tc'] = float(round(e['t'] + e['dur'], 4))
                rec['tc'] = d['tc']
            ss.add('Fault', d)
            rec.update(model='Fault', dev='VF%d' % k, field='uf', evmodel='Fault', evidx='VF%d' % k, timer='tf')
        out.append(rec)
    return out


def apply_method(v, method, amount):
    if method == '+':
        return v + amount
    if method == '-':
        return v - amount
    if method == '*':
        return v * amount
    if method == '/':
        return v / amount
    return amount


def run_schedule(ctx, c):
    path = os.path.join(build.cases_root(), c['base'])
    rc = {'PFlow': dict(report=0), 'TDS': dict(no_tqdm=1, tf=c['bounds'][0], tstep=c['tstep'], fixt=c['fixt'], criteria=0)}
    rc['TDS'].update(c.get('opts') or {})
    for k, v in (c.get('opts') or {}).items():
        ctx.count('opt:%s=%s' % (k, v))
    ss = build.load_case(path, rc=rc, setup=False)
    recs = materialise(ss, c)
    # the case's own timed events are part of the schedule
    own = []
    if ss.Toggle.n:
        for i, idx in enumerate(ss.Toggle.idx.v):
            if not str(idx).startswith('VT'):
                own.append(dict(kind='toggle_own', t=float(ss.Toggle.t.v[i]), u=int(ss.Toggle.u.v[i]) if hasattr(ss.Toggle.u, 'v') else 1,
                                model=ss.Toggle.model.v[i], dev=ss.Toggle.dev.v[i], field='u', evmodel='Toggle', evidx=idx,
                                timer='t', cls='own'))
    if not ss.setup():
        raise RuntimeError('setup failed')
    for r in recs:
        if r.get('evmodel') == 'TimeSeries':
            r['t'] = float(ss.TimeSeries._data[r['evidx']]['t'].iloc[0])
    if not ss.PFlow.run():
        ctx.count('skip:pflow_failed')
        return
    mon = sim.Monitor(ss, keep_vectors=False).attach()
    allrec = recs + own

    def getter(model, dev, field):
        mdl = ss.models[model]

        def g():
            if field == 'uf':
                return float(mdl.uf.v[mdl.idx2uid(dev)])
            return float(mdl.get(src=field, idx=dev, attr='v'))
        return g
    targets = {}
    for r in allrec:
        key = '%s|%s|%s' % (r['model'], r['dev'], r['field'])
        targets[key] = (r['model'], r['dev'], r['field'])
    for key, (m, d, f) in targets.items():
        mon.watch[key] = getter(m, d, f)
    ss.TDS.init()
    initial = {k: fn() for k, fn in mon.watch.items()}
    ok = True
    raised = None
    for b in c['bounds']:
        ss.TDS.config.tf = b
        try:
            ok = ss.TDS.run()
        except Exception as e:
            ok = False
            raised = '%s: %s' % (type(e).__name__, str(e)[:200])
        if not ok:
            break
    final = {k: fn() for k, fn in mon.watch.items()}
    tf = c['tf']
    stamps = [float(t) for t in ss.dae.ts.t]
    t_end = stamps[-1] if stamps else 0.0
    brief = dict(base=c['base'], tstep=c['tstep'], fixt=c['fixt'], tf=tf, bounds=c['bounds'], opts=c.get('opts'),
                 events=[{k: r[k] for k in ('kind', 't', 'u', 'cls', 'model', 'dev', 'field') if k in r} for r in allrec])
    if raised:
        ctx.count('run:raised')
        t0_fault = any(r['kind'] == 'fault' and r['t'] == 0.0 and r.get('tc') is not None and r['u'] for r in allrec)
        ctx.fail('run_raised', dict(schedule=brief, error=raised),
                 sig=dict(error=raised.split(':')[0], fault_at_t0_with_clearing=bool(t0_fault and 'broadcast' in raised)))
    # ---- time grid -----------------------------------------------------------------------------------------
    ts = np.array(stamps)
    if len(ts) > 1 and np.any(np.diff(ts) <= 0):
        k = int(np.argmax(np.diff(ts) <= 0))
        ctx.fail('time_stamps_not_increasing', dict(schedule=brief, at=[stamps[k], stamps[k + 1]]), sig=dict(segments=len(c['bounds']) > 1))
    if ok:
        ctx.count('run:completed')
        if t_end != tf or float(ss.dae.t) != tf:
            ctx.fail('end_time_not_exact', dict(schedule=brief, last_stamp=t_end, dae_t=float(ss.dae.t), tf=tf), sig=dict())
    else:
        ctx.count('run:stopped_early')
    if np.any(ts > tf):
        ctx.fail('stamp_beyond_end', dict(schedule=brief, max=float(ts.max())), sig=dict())
    # ---- firings ------------------------------------------------------------------------------------------------
    # expected: one firing per event (enabled or not: dispatch happens; the *effect* is gated by u) with t in (0, t_end]
    def fire_times(r):
        out = [('t' if r['evmodel'] != 'Fault' else 'tf', r['t'])]
        if r.get('tc') is not None:
            out.append(('tc', r['tc']))
        return out
    ncheck = 0
    for r in allrec:
        for timer, te in fire_times(r):
            hits = [f for f in mon.firings if f['model'] == r['evmodel'] and f['timer'] == timer and r['evidx'] in f['idx']]
            in_range = (0.0 < te <= t_end) and (ok or te < t_end)
            at_t0 = te == 0.0
            sig = dict(time_class=r['cls'].split('+')[0], kind=r['kind'], segments=len(c['bounds']) > 1)
            if r['evmodel'] == 'TimeSeries':
                # no timer callback to observe: the stamp, the no-crossing rule and the value time line below decide
                if in_range and te not in stamps:
                    ctx.fail('event_time_not_a_stamp', dict(schedule=brief, event=_ev(r), t_e=te), sig=sig)
                ncheck += 1 if in_range else 0
                continue
            if in_range:
                exact = [f for f in hits if f['t'] == te]
                if len(exact) != 1 or len(hits) != 1:
                    ctx.fail('event_fires_once', dict(schedule=brief, event=_ev(r), timer=timer, t_e=te,
                                                      firings=[f['t'] for f in hits]), sig=sig)
                if te not in stamps:
                    ctx.fail('event_time_not_a_stamp', dict(schedule=brief, event=_ev(r), t_e=te), sig=sig)
                ncheck += 1
            elif at_t0:
                if r['u'] and len(hits) != 1:
                    ctx.fail('event_fires_once', dict(schedule=brief, event=_ev(r), timer=timer, t_e=te,
                                                      firings=[f['t'] for f in hits]), sig=sig)
            elif te > t_end or te < 0:
                if hits:
                    ctx.fail('out_of_range_event_fired', dict(schedule=brief, event=_ev(r), t_e=te, firings=[f['t'] for f in hits]), sig=sig)
    # no step crosses an event time
    ev_times = sorted(set(te for r in allrec for _, te in fire_times(r) if 0 < te < t_end))
    for te in ev_times:
        k = int(np.searchsorted(ts, te))
        if k >= len(ts) or ts[k] != te:
            ctx.fail('step_crosses_event', dict(schedule=brief, t_e=te, around=[float(ts[max(0, k - 1)]), float(ts[min(len(ts) - 1, k)])]),
                     sig=dict())
    # ---- effects: fold of the schedule ----------------------------------------------------------------------------
    expect = dict(initial)
    timeline = sorted([(te, i, timer, r) for i, r in enumerate(allrec) for timer, te in fire_times(r)
                       if r['u'] and ((0.0 < te <= t_end) and (ok or te < t_end))], key=lambda z: (z[0], z[1]))
    changes = {}
    for te, _, timer, r in timeline:
        key = '%s|%s|%s' % (r['model'], r['dev'], r['field'])
        if r['evmodel'] == 'Toggle':
            expect[key] = 1.0 - expect[key]
        elif r['evmodel'] == 'Alter':
            expect[key] = apply_method(expect[key], r['method'], r['amount'])
        elif r['evmodel'] == 'TimeSeries':
            expect[key] = r['amount']
        elif r['evmodel'] == 'Fault':
            expect[key] = 1.0 if timer == 'tf' else 0.0
        changes.setdefault(key, []).append(te)
    # when the run stopped early, an event scheduled exactly at the last accepted time may or may not have been
    # dispatched before the stop: its target is not judged
    ambiguous = set('%s|%s|%s' % (r['model'], r['dev'], r['field']) for r in allrec for _, te in fire_times(r)
                    if not ok and te == t_end)
    for key in expect:
        if key in ambiguous:
            continue
        if abs(final[key] - expect[key]) > 1e-12 * (1 + abs(expect[key])):
            ctx.fail('final_value_not_fold_of_schedule', dict(schedule=brief, target=key, initial=initial[key], final=final[key],
                                                              expected=expect[key]),
                     sig=dict(field=key.split('|')[2]))
    # the watched value may only change between a firing stamp and the next stamp
    for key in expect:
        if key in ambiguous:
            continue
        series = [(r['t'], r['watch'][key]) for r in mon.stored if 'watch' in r]
        allowed = set(changes.get(key, []))
        for (t0_, v0_), (t1_, v1_) in zip(series[:-1], series[1:]):
            if v0_ != v1_ and t0_ not in allowed:
                ctx.fail('target_changed_without_event', dict(schedule=brief, target=key, between=[t0_, t1_], values=[v0_, v1_]), sig=dict())
    enabled_in = [r for r in allrec if r['u'] and 0 < r['t'] <= t_end]
    offgrid = [r for r in enabled_in if abs(r['t'] / c['tstep'] - round(r['t'] / c['tstep'])) > 1e-9]
    for r in allrec:
        ctx.count('time_class:' + r['cls'])
    ctx.count('firings_checked', ncheck)
    if len(c['bounds']) > 1:
        ctx.count('resumed_runs')
    if len(enabled_in) >= 2 and offgrid:
        ctx.nontrivial(brief, sample=dict(schedule=brief, stamps=len(stamps), firings=len(mon.firings), completed=bool(ok)))


def _ev(r):
    return {k: r[k] for k in ('kind', 't', 'u', 'cls', 'model', 'dev', 'field', 'evidx') if k in r}


def camp_events(ctx):
    def body(c):
        ctx.evaluated()
        run_schedule(ctx, c)
    quick = ctx.tier == 'quick'
    if ctx.shard == 0:
        # anchor: every event kind once at a time beyond 10 s (float spacing there exceeds the resolution used near 0)
        c = dict(base=BASES[0], tstep=1 / 30, fixt=1, tf=10.6, bounds=[10.6],
                 events=[dict(kind='timeseries', t=10.3123, cls='late', u=1, sel=1, amount=0.11),
                         dict(kind='alter', t=10.2071, cls='late', u=1, sel=2, target='line_b', method='*', amount=1.1),
                         dict(kind='toggle_pq', t=10.4517, cls='late', u=1, sel=0),
                         dict(kind='timeseries', t=10.5, cls='late', u=0, sel=3, amount=0.3)])
        ctx.current_case = c
        ctx.count('anchor:late_events')
        body(c)
        c = dict(c, opts=dict(refresh_event=1, check_conn=1), tf=2.5, bounds=[1.2, 2.5],
                 events=[dict(kind='toggle_line', t=0.5, cls='grid', u=1, sel=3), dict(kind='alter', t=1.3071, cls='offgrid', u=1, sel=2,
                                                                                      target='line_b', method='*', amount=1.1),
                         dict(kind='toggle_pq', t=2.0, cls='grid', u=1, sel=0), dict(kind='fault', t=0.8, cls='grid', u=1, sel=1, dur=0.05)])
        ctx.current_case = c
        ctx.count('anchor:refresh_event')
        body(c)
    drive(ctx, schedules(), body, 10 if quick else 250, name='events', chunk=10, budget_s=170 if quick else 1500)


CAMPAIGNS = {
    'events': dict(fn=camp_events, shards=dict(quick=16, thorough=16)),
}


def replay(ctx, rec):
    run_schedule(ctx, rec['case'])
