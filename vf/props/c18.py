"""C18 - control blocks realise their documented transfer functions from steady state."""
import numpy as np
from hypothesis import strategies as st

from .. import fab
from ..oracle import pyeval
from ..runner import drive

EXHAUSTIVE = True
RULE = ("Every linear block class of andes.core.block (exhaustive list below) is instantiated inside a tiny owner "
        "Model exactly as shipped models do (so export and name-spacing are exercised); its exported equation "
        "strings are evaluated by the independent Python evaluator at unit vectors to obtain the affine "
        "Laplace-domain system  s*T*x = f, 0 = g, which is solved for y/u at generated complex frequencies s and "
        "compared with the transfer function typed in from the class docstring (O-tf). Parameter tuples are "
        "generated (all distinct non-zero, and every documented zero-time-constant bypass). Steady state: with "
        "constant input every equation evaluated at the declared v_str values is 0. Limited variants use "
        "zi=1, zl=zu=0. A rational identity that holds at many random points holds identically (Schwartz-Zippel). "
        "Non-trivial = (block, parameter tuple class) with all time constants distinct and non-zero, or a bypass "
        "tuple; distinct by (block, clause, class, tuple).")
ASSUMPTIONS = [
    "Documented transfer functions are those of the ASCII diagrams / Notes of each block docstring (vf/props/c18.py BLOCKS).",
    "Zero-out flags are computed by the real LessThan.check_var (part of the mechanism under test); limiter flags are set to 'inside'.",
    "Floating-point comparison, relative 1e-9; parameter magnitudes within [0.05, 20].",
]


# ---------------------------------------------------------------------------------------------
# O-tf: documented transfer functions (typed from the docstrings)
# ---------------------------------------------------------------------------------------------

def _lag(s, p):
    return p['K'] / (p.get('D', 1.0) + s * p['T'])


BLOCKS = {
    # name: (constructor kwargs builder, parameter names, H(s, p), steady-input rule)
    'Gain': dict(params=['K'], H=lambda s, p: p['K'] + 0 * s, kw=lambda m: dict(u=m.u, K=m.K)),
    'Integrator': dict(params=['T', 'K', 'y0'], H=lambda s, p: p['K'] / (s * p['T']),
                       kw=lambda m: dict(u=m.u, T=m.T, K=m.K, y0=m.y0), steady_u=0.0, nonzero=['T']),
    'IntegratorAntiWindup': dict(params=['T', 'K', 'y0', 'lower', 'upper'], H=lambda s, p: p['K'] / (s * p['T']),
                                 kw=lambda m: dict(u=m.u, T=m.T, K=m.K, y0=m.y0, lower=m.lower, upper=m.upper),
                                 steady_u=0.0, nonzero=['T']),
    'Washout': dict(params=['T', 'K'], H=lambda s, p: s * p['K'] / (1 + s * p['T']),
                    kw=lambda m: dict(u=m.u, T=m.T, K=m.K), nonzero=['T']),
    'WashoutOrLag': dict(params=['T', 'K'],
                         H=lambda s, p: (s * p['K'] / (1 + s * p['T'])) if p['K'] > 0 else 1.0 / (1 + s * p['T']),
                         kw=lambda m: dict(u=m.u, T=m.T, K=m.K, name='B', zero_out=True), nonzero=['T'],
                         bypass=[dict(K=0.0)]),
    'Lag': dict(params=['T', 'K', 'D'], H=_lag, kw=lambda m: dict(u=m.u, T=m.T, K=m.K, D=m.D), nonzero=['T', 'D']),
    'LagAntiWindup': dict(params=['T', 'K', 'D', 'lower', 'upper'], H=_lag,
                          kw=lambda m: dict(u=m.u, T=m.T, K=m.K, D=m.D, lower=m.lower, upper=m.upper),
                          nonzero=['T', 'D']),
    'LagRate': dict(params=['T', 'K', 'D', 'rate_lower', 'rate_upper'], H=_lag,
                    kw=lambda m: dict(u=m.u, T=m.T, K=m.K, D=m.D, rate_lower=m.rate_lower, rate_upper=m.rate_upper),
                    nonzero=['T', 'D']),
    'LagAntiWindupRate': dict(params=['T', 'K', 'D', 'lower', 'upper', 'rate_lower', 'rate_upper'], H=_lag,
                              kw=lambda m: dict(u=m.u, T=m.T, K=m.K, D=m.D, lower=m.lower, upper=m.upper,
                                                rate_lower=m.rate_lower, rate_upper=m.rate_upper),
                              nonzero=['T', 'D']),
    'LagFreeze': dict(params=['T', 'K', 'freeze'], H=lambda s, p: p['K'] / (1 + s * p['T']),
                      kw=lambda m: dict(u=m.u, T=m.T, K=m.K, freeze=m.freeze), fixed=dict(freeze=0.0), nonzero=['T']),
    'LagAWFreeze': dict(params=['T', 'K', 'lower', 'upper', 'freeze'], H=lambda s, p: p['K'] / (1 + s * p['T']),
                        kw=lambda m: dict(u=m.u, T=m.T, K=m.K, lower=m.lower, upper=m.upper, freeze=m.freeze),
                        fixed=dict(freeze=0.0), nonzero=['T']),
    'Lag2ndOrd': dict(params=['K', 'T1', 'T2'], H=lambda s, p: p['K'] / (1 + s * p['T1'] + s * s * p['T2']),
                      kw=lambda m: dict(u=m.u, K=m.K, T1=m.T1, T2=m.T2), nonzero=['T2']),
    'LeadLag': dict(params=['T1', 'T2', 'K'],
                    H=lambda s, p: p['K'] * (1 + s * p['T1']) / (1 + s * p['T2']),
                    kw=lambda m: dict(u=m.u, T1=m.T1, T2=m.T2, K=m.K, zero_out=True), nonzero=['T2'],
                    bypass=[dict(T1=0.0, T2=0.0)], out='y'),
    'LeadLag_nozero': dict(cls='LeadLag', params=['T1', 'T2', 'K'],
                           H=lambda s, p: p['K'] * (1 + s * p['T1']) / (1 + s * p['T2']),
                           kw=lambda m: dict(u=m.u, T1=m.T1, T2=m.T2, K=m.K, zero_out=False), nonzero=['T2']),
    'LeadLag2ndOrd': dict(params=['T1', 'T2', 'T3', 'T4'],
                          H=lambda s, p: (1 + s * p['T3'] + s * s * p['T4']) / (1 + s * p['T1'] + s * s * p['T2']),
                          kw=lambda m: dict(u=m.u, T1=m.T1, T2=m.T2, T3=m.T3, T4=m.T4, zero_out=True), nonzero=['T2'],
                          bypass=[dict(T1=0.0, T2=0.0, T3=0.0, T4=0.0)]),
    'LeadLagLimit': dict(params=['T1', 'T2', 'lower', 'upper'],
                         H=lambda s, p: (1 + s * p['T1']) / (1 + s * p['T2']),
                         kw=lambda m: dict(u=m.u, T1=m.T1, T2=m.T2, lower=m.lower, upper=m.upper), nonzero=['T2']),
    'PIController': dict(params=['kp', 'ki', 'ref', 'x0'], H=lambda s, p: p['kp'] + p['ki'] / s,
                         kw=lambda m: dict(u=m.u, kp=m.kp, ki=m.ki, ref=m.ref, x0=m.x0), steady_u='ref',
                         affine_ref='ref'),
    'PIDController': dict(params=['kp', 'ki', 'kd', 'Td', 'ref', 'x0'],
                          H=lambda s, p: p['kp'] + p['ki'] / s + s * p['kd'] / (1 + s * p['Td']),
                          kw=lambda m: dict(u=m.u, kp=m.kp, ki=m.ki, kd=m.kd, Td=m.Td, ref=m.ref, x0=m.x0, name='B'),
                          steady_u='ref', affine_ref='ref', nonzero=['Td', 'kd']),
    'PIAWHardLimit': dict(params=['kp', 'ki', 'aw_lower', 'aw_upper', 'lower', 'upper', 'ref', 'x0'],
                          H=lambda s, p: p['kp'] + p['ki'] / s,
                          kw=lambda m: dict(u=m.u, kp=m.kp, ki=m.ki, aw_lower=m.aw_lower, aw_upper=m.aw_upper,
                                            lower=m.lower, upper=m.upper, ref=m.ref, x0=m.x0),
                          steady_u='ref', affine_ref='ref'),
    'PIDAWHardLimit': dict(params=['kp', 'ki', 'kd', 'Td', 'aw_lower', 'aw_upper', 'lower', 'upper', 'ref', 'x0'],
                           H=lambda s, p: p['kp'] + p['ki'] / s + s * p['kd'] / (1 + s * p['Td']),
                           kw=lambda m: dict(u=m.u, kp=m.kp, ki=m.ki, kd=m.kd, Td=m.Td, aw_lower=m.aw_lower,
                                             aw_upper=m.aw_upper, lower=m.lower, upper=m.upper, ref=m.ref, x0=m.x0,
                                             name='B'),
                           steady_u='ref', affine_ref='ref', nonzero=['Td', 'kd']),
    'PITrackAW': dict(params=['kp', 'ki', 'ks', 'lower', 'upper', 'ref', 'x0'], H=lambda s, p: p['kp'] + p['ki'] / s,
                      kw=lambda m: dict(u=m.u, kp=m.kp, ki=m.ki, ks=m.ks, lower=m.lower, upper=m.upper, ref=m.ref, x0=m.x0),
                      steady_u='ref', affine_ref='ref'),
    'PIDTrackAW': dict(params=['kp', 'ki', 'kd', 'Td', 'ks', 'lower', 'upper', 'ref', 'x0'],
                       H=lambda s, p: p['kp'] + p['ki'] / s + s * p['kd'] / (1 + s * p['Td']),
                       kw=lambda m: dict(u=m.u, kp=m.kp, ki=m.ki, kd=m.kd, Td=m.Td, ks=m.ks, lower=m.lower, upper=m.upper,
                                         ref=m.ref, x0=m.x0, name='B'),
                       steady_u='ref', affine_ref='ref', nonzero=['Td', 'kd']),
    'PITrackAWFreeze': dict(params=['kp', 'ki', 'ks', 'lower', 'upper', 'freeze', 'ref', 'x0'],
                            H=lambda s, p: p['kp'] + p['ki'] / s,
                            kw=lambda m: dict(u=m.u, kp=m.kp, ki=m.ki, ks=m.ks, lower=m.lower, upper=m.upper,
                                              freeze=m.freeze, ref=m.ref, x0=m.x0),
                            steady_u='ref', affine_ref='ref', fixed=dict(freeze=0.0)),
    'PIFreeze': dict(params=['kp', 'ki', 'freeze', 'ref', 'x0'], H=lambda s, p: p['kp'] + p['ki'] / s,
                     kw=lambda m: dict(u=m.u, kp=m.kp, ki=m.ki, freeze=m.freeze, ref=m.ref, x0=m.x0),
                     steady_u='ref', affine_ref='ref', fixed=dict(freeze=0.0)),
    'GainLimiter': dict(params=['K', 'R', 'lower', 'upper'], H=lambda s, p: p['K'] * p['R'] + 0 * s,
                        kw=lambda m: dict(u=m.u, K=m.K, R=m.R, lower=m.lower, upper=m.upper)),
}

_models = {}


def harness_model(bname, expr=False):
    """A one-block owner Model, built the way shipped models are. With expr=True the block's input (and gain K, where it has
    one) are given as equation strings, which the block API admits: u = '(ua) - (ub)', K = '(Ka) + (Kb)'."""
    key = (bname, expr)
    if key in _models:
        return _models[key]
    from andes.core import ModelData, Model, NumParam, Algeb
    import andes.core.block as blk
    spec = BLOCKS[bname]
    ss = fab.bare_system()
    cls = getattr(blk, spec.get('cls', bname))

    class HData(ModelData):
        def __init__(self):
            super().__init__()
            for p in spec['params']:
                setattr(self, p, NumParam(default=1.0, tex_name=p, info=p))

    class HModel(HData, Model):
        def __init__(self, system, config):
            HData.__init__(self)
            Model.__init__(self, system, config)
            self.group = 'Undefined'
            self.u = Algeb(info='input', tex_name='u')
            kw = spec['kw'](self)
            if expr:
                kw['u'] = '(ua) - (ub)'
                if 'K' in kw and bname != 'WashoutOrLag':      # there K also feeds the K == 0 detector (a comparison on a value)
                    kw['K'] = '(Ka) + (Kb)'
            self.B = cls(**kw)

    HModel.__name__ = 'H' + bname
    m = HModel(ss, None)
    _models[key] = m
    return m


def set_flags(model, p):
    """Discrete flag values for a parameter tuple: LessThan via the real check_var; limiters 'inside'."""
    flags = {}
    for dname, d in model.discrete.items():
        cname = d.__class__.__name__
        names = d.get_names()
        fl = list(d.export_flags)
        if cname == 'LessThan':
            # feed the real component
            class V:
                pass
            uval = p.get(getattr(d.u, 'name', None), getattr(d.u, 'v', 0.0))
            bval = p.get(getattr(d.bound, 'name', None), getattr(d.bound, 'v', 0.0))
            su, sb = d.u, d.bound
            uu, bb = V(), V()
            uu.v = np.array([float(uval)])
            bb.v = np.array([float(bval)])
            d.u, d.bound = uu, bb
            try:
                d.z0 = np.zeros(1)
                d.z1 = np.zeros(1)
                d._eval = False
                d.check_var()
                for nm, f in zip(names, fl):
                    flags[nm] = float(np.asarray(getattr(d, f)).ravel()[0])
            finally:
                d.u, d.bound = su, sb
                d._eval = False
        else:
            for nm, f in zip(names, fl):
                flags[nm] = 1.0 if f == 'zi' else 0.0
    return flags


def block_system(model, p, flags):
    """Affine coefficients of the exported equations: returns (xs, ys, T, A, b, c0) with
    rows over [states, algebs-without-u], columns over the same unknowns; b = d/du."""
    xs = [n for n in model.states.keys()]
    ys = [n for n in model.algebs.keys() if n != 'u']
    unk = xs + ys
    base = dict(p)
    base.update(flags)
    base.update({'sys_f': 60.0, 'sys_mva': 100.0, 'dae_t': 0.0})

    def F(vals, u):
        ns = dict(base)
        ns.update({k: float(v) for k, v in zip(unk, vals)})
        ns['u'] = float(u)
        # expression-string arguments: (ua) - (ub) == u and (Ka) + (Kb) == K exactly in floating point
        ns.update(ua=2.0 * float(u), ub=float(u))
        if 'K' in p:
            ns.update(Ka=0.5 * p['K'], Kb=0.5 * p['K'])
        nsd = pyeval.Namespace(ns)
        out = []
        for nme in unk:
            e = model.cache.all_vars[nme].e_str
            out.append(complex(pyeval.evaluate(e, nsd)) if e is not None else 0j)
        return np.array(out)

    z = np.zeros(len(unk))
    c0 = F(z, 0.0)
    A = np.zeros((len(unk), len(unk)), dtype=complex)
    for k in range(len(unk)):
        e = z.copy()
        e[k] = 1.0
        A[:, k] = F(e, 0.0) - c0
    b = F(z, 1.0) - c0
    # affinity check at a random-looking point
    pt = np.array([0.37 + 0.11 * k for k in range(len(unk))])
    lin = c0 + A @ pt + b * 0.83
    act = F(pt, 0.83)
    affine = bool(np.allclose(lin, act, rtol=1e-9, atol=1e-12))
    T = []
    for n in xs:
        tc = model.states[n].t_const
        if tc is None:
            T.append(1.0)
        else:
            T.append(float(p.get(getattr(tc, 'name', None), getattr(tc, 'v', 1.0))))
    return xs, ys, np.array(T), A, b, c0, affine


def check_block(ctx, case):
    bname, p, svals = case['block'], dict(case['params']), case['s']
    spec = BLOCKS[bname]
    model = harness_model(bname, expr=bool(case.get('expr')))
    if case.get('expr'):
        ctx.count('arguments:equation_strings')
    flags = set_flags(model, p)
    xs, ys, T, A, b, c0, affine = block_system(model, p, flags)
    nx = len(xs)
    unk = xs + ys
    out = 'B_' + spec.get('out', 'y')
    if out not in unk:
        raise RuntimeError('output %s not among %s' % (out, unk))
    if not affine:
        ctx.fail('equations_not_affine', dict(block=bname, params=p), sig=dict(block=bname))
    # -- transfer function -------------------------------------------------------------------------
    for (sr, si) in svals:
        s = complex(sr, si)
        M = -A.copy()
        for k in range(nx):
            M[k, k] += s * T[k]
        try:
            z = np.linalg.solve(M, b)
        except np.linalg.LinAlgError:
            ctx.count('tf:singular_skipped')
            continue
        got = z[unk.index(out)]
        exp = spec['H'](s, p)
        if not np.isfinite(exp):
            ctx.count('tf:oracle_nonfinite')
            continue
        if abs(got - exp) > 1e-9 * (1 + abs(exp)) * max(1.0, np.linalg.cond(M) * 1e-6):
            ctx.fail('transfer_function_differs',
                     dict(block=bname, params=p, s=[sr, si], implemented=[got.real, got.imag],
                          documented=[complex(exp).real, complex(exp).imag], flags=flags),
                     sig=dict(block=bname, cls=case['cls'], expr=bool(case.get('expr'))))
    # -- steady state: declared initial values balance every equation -----------------------------
    rule = spec.get('steady_u')
    u0 = case['u0'] if rule is None else (p[rule] if isinstance(rule, str) else rule)
    ns = dict(p)
    ns.update(flags)
    ns.update({'u': float(u0), 'sys_f': 60.0, 'sys_mva': 100.0, 'dae_t': 0.0, 'ua': 2.0 * float(u0), 'ub': float(u0)})
    if 'K' in p:
        ns.update(Ka=0.5 * p['K'], Kb=0.5 * p['K'])
    vals = {n: 0.0 for n in unk}
    for _ in range(len(unk) + 1):
        for n in unk:
            vs = model.cache.all_vars[n].v_str
            if vs is None:
                continue
            nsd = pyeval.Namespace(dict(ns, **vals))
            vals[n] = float(np.real(pyeval.evaluate(vs, nsd)))
    nsd = pyeval.Namespace(dict(ns, **vals))
    for n in unk:
        e = model.cache.all_vars[n].e_str
        if e is None:
            continue
        r = complex(pyeval.evaluate(e, nsd))
        if abs(r) > 1e-10 * (1 + abs(u0)) * 20:
            ctx.fail('initial_values_do_not_balance',
                     dict(block=bname, params=p, u0=u0, equation=n, residual=[r.real, r.imag],
                          v_str=str(model.cache.all_vars[n].v_str), e_str=str(e)[:200]),
                     sig=dict(block=bname, equation=n.replace('B_', '')))
    ctx.nontrivial(dict(block=bname, cls=case['cls'], p=p), sample=dict(block=bname, cls=case['cls'], params=p,
                                                                      s=svals[:1], flags=flags))


@st.composite
def block_cases(draw, bname):
    spec = BLOCKS[bname]
    val = st.floats(0.05, 20.0).map(lambda x: float(round(x, 4)))
    p = {}
    for name in spec['params']:
        p[name] = draw(val)
    for name in ('lower', 'aw_lower', 'rate_lower'):
        if name in p:
            p[name] = -abs(p[name]) - 50.0
    for name in ('upper', 'aw_upper', 'rate_upper'):
        if name in p:
            p[name] = abs(p[name]) + 50.0
    for k, v in spec.get('fixed', {}).items():
        p[k] = v
    cls = 'generic'
    if spec.get('bypass') and draw(st.booleans()):
        bp = draw(st.sampled_from(spec['bypass']))
        p.update(bp)
        cls = 'bypass:' + ','.join(sorted(bp))
    elif draw(st.integers(0, 4)) == 0:
        # a non-critical parameter at zero / one
        free = [n for n in spec['params'] if n not in spec.get('nonzero', []) and n not in spec.get('fixed', {})
                and n not in ('lower', 'upper', 'aw_lower', 'aw_upper', 'rate_lower', 'rate_upper')]
        if free:
            k = draw(st.sampled_from(free))
            p[k] = draw(st.sampled_from([0.0, 1.0]))
            if bname == 'WashoutOrLag' and k == 'K' and p[k] == 0.0:
                cls = 'bypass:K'
            else:
                cls = 'special:%s=%g' % (k, p[k])
    svals = [(float(round(draw(st.floats(-3, 3)), 3)), float(round(draw(st.floats(0.1, 30)), 3))) for _ in range(3)]
    return dict(block=bname, params=p, s=svals, u0=float(round(draw(st.floats(-3, 3)), 3)), cls=cls,
                expr=draw(st.sampled_from([False, False, True])))


def camp_blocks(ctx):
    names = sorted(BLOCKS)
    mine = [b for i, b in enumerate(names) if i % ctx.nshards == ctx.shard]
    n = 300 if ctx.tier == "quick" else 4000
    ctx.extra['blocks_covered'] = {}
    for b in mine:
        def body(case):
            ctx.evaluated()
            ctx.count('class:' + case['cls'].split(':')[0])
            check_block(ctx, case)
        drive(ctx, block_cases(b), body, n, name='blk-' + b, chunk=60)
        ctx.extra['blocks_covered'][b] = n


CAMPAIGNS = {
    'blocks': dict(fn=camp_blocks, shards=dict(quick=9, thorough=9)),
}


def replay(ctx, rec):
    check_block(ctx, rec['case'])
