"""C05 - dynamic initialisation is an equilibrium consistent with the power flow."""
import os

import numpy as np
from hypothesis import strategies as st

from .. import build
from ..runner import Violation, drive

RULE = ("All loadable stock dynamic cases (each a different combination of generator / exciter / governor / PSS / "
        "renewable / load / measurement models) and generated variants built from their rows: drawn dynamic devices "
        "switched offline, a static generator's machine split into two machines with drawn split factors (summing to 1 "
        "= consistent, or not = deliberately inconsistent), drawn limits moved below the operating point (inconsistent), converter-interfaced plants (storage, distributed and renewable generation) re-dispatched incl. absorbing power (judged where their discrete components keep the status they have at the stock dispatch). "
        "Oracle: (1) verdict consistency for every case: TDS.init() reports test_ok iff the residuals recomputed through "
        "the routine's residual evaluation are below tol (no NaN), and a failure raises the exit code; (2) under the "
        "harness-evaluated preconditions (all references resolve, split factors sum to 1, no limiter flag other than "
        "'inside' after init) initialisation must succeed; (3) on success: bus voltages equal the power-flow solution "
        "bitwise, the dynamic machines of every static generator deliver its power-flow P and Q, the static generator is "
        "switched off, and an undisturbed simulation of 1 s stays at the initial point. Non-trivial = system with >= 2 "
        "distinct dynamic model classes; a coverage table of model classes reached is part of the evidence. Distinct by "
        "the case JSON.")
ASSUMPTIONS = [
    "States declared check_init=False are exempt from the residual test, as documented.",
    "Drift bound of the undisturbed run: 50*tol*(1+|x|) over 1 s at the default step; states with zero time constant (algebraic, undetermined inside bypassed filters) and cases driven by a TimeSeries are exempt.",
    "A case whose own data put a limiter at its bound at initialisation is not 'inside all limiter ranges' and only the verdict-consistency clause applies.",
]


# groups whose devices can be taken out of service one at a time without moving the operating point of the rest:
# controllers hold their output at the initial value (exciters, governors), stabilisers and measurement devices have zero
# steady-state output, a dynamic load hands the load back to its static load
OFFLINE_NEUTRAL = ('Exciter', 'TurbineGov', 'PSS', 'DynLoad', 'FreqMeasurement', 'PhasorMeasurement')


def dyn_paths(quick):
    out = []
    for p in build.stock_cases(('.xlsx', '.json')):
        rel = os.path.relpath(p, build.cases_root())
        if os.path.getsize(p) > (200000 if quick else 900000) or rel.startswith(('EI', 'ei')):
            continue
        out.append(rel)
    return out


@st.composite
def init_cases(draw, paths):
    return dict(path=draw(st.sampled_from(paths)),
                variant=draw(st.sampled_from(['asis', 'asis', 'offline', 'offline_syn', 'split_ok', 'split_bad', 'limit_below', 'degenerate', 'degenerate',
                                              'dispatch'])),
                factor=draw(st.sampled_from([-1.0, -0.5, 0.4, 0.7])),
                sel=draw(st.integers(0, 50)), gamma=draw(st.sampled_from([0.3, 0.5, 0.75])),
                bad_sum=draw(st.sampled_from([0.8, 1.2])),
                # voltage dependence of the static loads during the simulation (constant power / current / impedance weights)
                zip_p=draw(st.sampled_from([None, None, [1.0, 0.0, 0.0], [0.0, 1.0, 0.0], [0.4, 0.3, 0.3]])),
                zip_q=draw(st.sampled_from([None, None, [1.0, 0.0, 0.0], [0.0, 1.0, 0.0], [0.3, 0.5, 0.2]])))


def build_variant(c):
    path = os.path.join(build.cases_root(), c['path'])
    ss0 = build.load_case(path, setup=False)
    rows = build.rows_of(ss0, vin=False)
    info = dict(consistent=True, note='')
    v = c['variant']
    syn_models = [m for m in ('GENROU', 'GENCLS') if m in rows]
    if v == 'offline':
        cands = [m for m in rows if ss0.models[m].flags.tds and not ss0.models[m].flags.pflow and ss0.models[m].group not in ('TimedEvent',)
                 and ss0.models[m].group in ('Exciter', 'TurbineGov', 'PSS', 'RenGen', 'RenExciter', 'RenPlant', 'DG', 'DynLoad', 'Motor',
                                             'FreqMeasurement', 'PhasorMeasurement', 'VoltComp')]
        if not cands:
            return None, info
        m = c['offline_model'] if c.get('offline_model') in cands else cands[c['sel'] % len(cands)]
        k = c['sel'] % len(rows[m])
        rows[m][k]['u'] = 0
        info['note'] = 'offline %s[%d]' % (m, k)
        info['offline_model'], info['offline_group'] = m, ss0.models[m].group
    elif v == 'offline_syn' and syn_models:
        # a synchronous machine taken out of service together with the controllers attached to it; its static
        # generator stays in the data (in service): the plant keeps injecting its power-flow power
        m = syn_models[c['sel'] % len(syn_models)]
        k = c['sel'] % len(rows[m])
        rows[m][k]['u'] = 0
        gidx = rows[m][k]['idx']
        off = ['%s[%s]' % (m, gidx)]
        avrs = set()
        for mm in rows:
            grp = ss0.models[mm].group
            if grp in ('Exciter', 'TurbineGov'):
                for r in rows[mm]:
                    if r.get('syn') == gidx:
                        r['u'] = 0
                        off.append('%s[%s]' % (mm, r['idx']))
                        if grp == 'Exciter':
                            avrs.add(r['idx'])
        for mm in rows:
            if ss0.models[mm].group == 'PSS':
                for r in rows[mm]:
                    if r.get('avr') in avrs:
                        r['u'] = 0
                        off.append('%s[%s]' % (mm, r['idx']))
        info['note'] = 'offline plant ' + ', '.join(off)
        info['offline_syn_gen'] = rows[m][k].get('gen')
    elif v in ('split_ok', 'split_bad') and syn_models:
        m = syn_models[c['sel'] % len(syn_models)]
        k = c['sel'] % len(rows[m])
        g = c['gamma']
        gq = {0.3: 0.6, 0.5: 0.25, 0.75: 0.4}.get(g, 0.5)      # active and reactive power are split differently
        other = (1 - g) if v == 'split_ok' else (c['bad_sum'] - g)
        otherq = (1 - gq) if v == 'split_ok' else (c['bad_sum'] - gq)
        r = rows[m][k]
        r['gammap'], r['gammaq'] = g, gq
        new = dict(idx='VSPLIT', bus=r['bus'], gen=r['gen'], Sn=r.get('Sn', 100.0), Vn=r.get('Vn', 110.0), M=6.0, D=1.0,
                   xd1=0.3, gammap=other, gammaq=otherq, u=1)
        rows.setdefault('GENCLS', []).append(new)
        info['consistent'] = v == 'split_ok'
        info['note'] = 'split %s[%d] gamma=%g + GENCLS gamma=%g' % (m, k, g, other)
    elif v == 'limit_below':
        # put an exciter / governor upper limit below the operating point: inconsistent data
        for m, field in (('TGOV1', 'VMAX'), ('TGOV1N', 'VMAX'), ('IEEEG1', 'PMAX'), ('EXDC2', 'VRMAX'), ('SEXS', 'EMAX'),
                         ('ESST3A', 'VRMAX'), ('EXST1', 'VRMAX'), ('IEEEX1', 'VRMAX')):
            if m in rows:
                k = c['sel'] % len(rows[m])
                rows[m][k][field] = -5.0 if field.startswith('V') or field.startswith('E') else 0.001
                info['consistent'] = False
                info['note'] = '%s[%d].%s below operating point' % (m, k, field)
                break
        else:
            return None, info
    elif v == 'dispatch':
        # the same plant at another dispatch: the power-flow active power of a static generator that is replaced by a
        # converter-interfaced device (storage, distributed or renewable generation) is scaled, negative = absorbing
        # (a storage device charging). Consistent data: whether the point lies inside all limiter ranges is evaluated by
        # the harness after initialisation, like for every other case.
        conv = []
        for mm in rows:
            if ss0.models[mm].group in ('DG', 'RenGen'):
                conv.extend((mm, r) for r in rows[mm] if r.get('u', 1) and r.get('gen') is not None)
        if not conv:
            return None, info
        mm, r = conv[c['sel'] % len(conv)]
        hit = False
        for g in rows.get('PV', []):
            if g['idx'] == r['gen']:
                g['p0'] = float(g['p0']) * c.get('factor', -0.5)
                hit = True
        if not hit:
            return None, info
        info['note'] = 'dispatch of the static generator of %s[%s] scaled by %g' % (mm, r['idx'], c.get('factor', -0.5))
    elif v == 'degenerate':
        # inconsistent data that make some initial value undefined (division by a zero gain / coinciding breakpoints):
        # a drawn numerical datum of a drawn dynamic device is set to zero or to its neighbour after set-up
        info['consistent'] = False
        info['degenerate'] = True
    elif v != 'asis':
        return None, info
    cwd = os.getcwd()
    try:
        os.chdir(os.path.dirname(path))
        rc = {'PFlow': dict(report=0), 'TDS': dict(no_tqdm=1, tf=1.0, criteria=0)}
        if c.get('zip_p') or c.get('zip_q'):
            zp, zq = c.get('zip_p') or [0.0, 0.0, 1.0], c.get('zip_q') or [0.0, 0.0, 1.0]
            rc['PQ'] = dict(p2p=zp[0], p2i=zp[1], p2z=zp[2], q2q=zq[0], q2i=zq[1], q2z=zq[2])
            info['note'] += ' load weights p=%s q=%s' % (zp, zq)
        ss = build.system_from_rows(rows, rc=rc)
    finally:
        os.chdir(cwd)
    if info.get('degenerate') and ss is not None and ss.is_setup:
        dyn = [m for m, mdl in ss.models.items() if mdl.n and mdl.flags.tds and not mdl.flags.pflow and mdl.group != 'TimedEvent']
        if not dyn:
            return None, info
        if c.get('degenerate_spec'):
            specs = c['degenerate_spec']
        else:
            m = dyn[c['sel'] % len(dyn)]
            mdl = ss.models[m]
            nums = [p for p, par in mdl.num_params.items() if p not in ('u', 'Sn', 'Vn', 'fn') and par.v.dtype.kind == 'f']
            if not nums:
                return None, info
            specs = [[m, nums[(c['sel'] * 7 + int(c['gamma'] * 100)) % len(nums)], 0.0]]
        for m, pname, val in specs:
            mdl = ss.models[m]
            if mdl.n == 0:
                return None, info
            mdl.num_params[pname].v[c['sel'] % mdl.n] = val
        info['note'] = 'degenerate ' + ', '.join('%s.%s=%g' % (m, pn, v_) for m, pn, v_ in specs)
    return ss, info


_ASIS = {}


def asis_reference(path):
    """Initialisation verdict and the list of limiter flags at a bound for the stock case as it is (cached per process)."""
    if path not in _ASIS:
        try:
            ss, _ = build_variant(dict(path=path, variant='asis', sel=0, gamma=0.5, bad_sum=1.2))
            ok = ss is not None and ss.is_setup and ss.PFlow.run()
            if ok:
                ss.TDS.init()
            _ASIS[path] = dict(test_ok=bool(ss.TDS.test_ok), at_limit=sorted(flags_at_bound(ss)[1])) if ok else None
        except Exception:
            _ASIS[path] = None
    return _ASIS[path]


def flags_at_bound(ss):
    flags_inside = True
    at_limit = []
    for mname, mdl in ss.exist.tds.items():
        if mdl.n == 0:
            continue
        # the operating point of a device that is out of service is not an operating point: only in-service devices count
        online = np.asarray(mdl.u.v, dtype=float) != 0 if hasattr(mdl, 'u') else np.ones(mdl.n, dtype=bool)
        if 'ue' in mdl.__dict__ and hasattr(mdl.ue, 'v') and np.size(mdl.ue.v) == mdl.n:
            online = online & (np.asarray(mdl.ue.v, dtype=float) != 0)
        for dname, d in mdl.discrete.items():
            for fl in ('zl', 'zu'):
                if fl in d.export_flags:
                    fv = np.asarray(getattr(d, fl))
                    hit = np.any(fv[online] != 0) if fv.shape == online.shape else np.any(fv != 0)
                    if hit:
                        flags_inside = False
                        at_limit.append('%s.%s_%s' % (mname, dname, fl))
    return flags_inside, at_limit


def init_case(ctx, c):
    try:
        ss, info = build_variant(c)
    except Exception as e:
        ctx.count('build_raised:' + type(e).__name__)
        return
    if ss is None or not ss.is_setup:
        ctx.count('skip:variant_not_applicable' if ss is None else 'skip:setup_failed')
        return
    try:
        if not ss.PFlow.run():
            ctx.count('skip:pflow_failed')
            return
    except Exception:
        ctx.count('skip:pflow_raised')
        return
    if not any(m.n for m in ss.exist.tds.values() if not m.flags.pflow and m.group != 'TimedEvent'):
        ctx.count('skip:no_dynamic_model')
        return
    ysol = ss.dae.y.copy()
    bus_a, bus_v = ss.Bus.a.v.copy(), ss.Bus.v.v.copy()
    sg = {}
    for name in ('PV', 'Slack'):
        mdl = ss.models[name]
        for k, idx in enumerate(mdl.idx.v):
            if mdl.u.v[k]:
                sg[idx] = (float(mdl.p.v[k]), float(mdl.q.v[k]))
    code0 = ss.exit_code
    try:
        ss.TDS.init()
    except Exception as e:
        # an exception is a (loud) report of failure
        ctx.count('init_raised:' + type(e).__name__)
        if info['consistent'] and c['variant'] == 'asis':
            ctx.note('TDS.init raised %s on %s' % (type(e).__name__, c['path']))
        return
    tol = ss.TDS.config.tol
    test_ok = ss.TDS.test_ok
    brief = dict(c, note=info['note'])
    off = {k: info[k] for k in ('offline_model', 'offline_group') if k in info}
    classes = sorted(m for m, mdl in ss.exist.tds.items() if mdl.n and not mdl.flags.pflow and mdl.group != 'TimedEvent')
    ctx.extra.setdefault('model_classes_reached', {})
    for m in classes:
        ctx.extra['model_classes_reached'][m] = ctx.extra['model_classes_reached'].get(m, 0) + 1
    ctx.count('variant:' + c['variant'])
    ctx.count('load_weights:' + ('default' if not (c.get('zip_p') or c.get('zip_q')) else 'p=%s q=%s' % (c.get('zip_p'), c.get('zip_q'))))
    ctx.count('verdict:' + ('ok' if test_ok else 'failed'))
    # ---- (1) verdict consistency -------------------------------------------------------------------------------
    # did initialisation leave the state behind an anti-windup limiter of an in-service device outside its limits?
    aw_outside = []
    for mname, mdl in ss.exist.tds.items():
        if mdl.n == 0:
            continue
        online = np.asarray(mdl.u.v, dtype=float) != 0 if hasattr(mdl, 'u') else np.ones(mdl.n, dtype=bool)
        for dname, d in mdl.discrete.items():
            if type(d).__name__ not in ('AntiWindup', 'AntiWindupRate'):
                continue
            try:
                x = np.asarray(d.u.v, dtype=float)
                bad = np.zeros(mdl.n, dtype=bool)
                if not d.no_upper:
                    up = np.asarray(d.upper.v, dtype=float) * (-1.0 if d.sign_upper.v == -1 else 1.0)
                    bad |= x > up + 1e-8
                if not d.no_lower:
                    lo = np.asarray(d.lower.v, dtype=float) * (-1.0 if d.sign_lower.v == -1 else 1.0)
                    bad |= x < lo - 1e-8
                if np.any(bad & online):
                    aw_outside.append('%s.%s' % (mname, dname))
            except Exception:
                pass
    ss.TDS.fg_update(ss.exist.pflow_tds, init=True)
    for item in ss.antiwindups:
        for key, _, eqval in item.x_set:
            np.put(ss.dae.f, key, eqval)
    f = ss.dae.f.copy()
    f[ss.no_check_init] = 0.0
    fg = np.concatenate([f, ss.dae.g])
    with np.errstate(all='ignore'):
        res = float(np.nanmax(np.abs(fg))) if len(fg) else 0.0
    has_nan = bool(np.any(~np.isfinite(fg)))
    actual_ok = (res < tol) and not has_nan
    if test_ok and not actual_ok:
        i = int(np.nanargmax(np.abs(fg))) if not has_nan else int(np.argmax(~np.isfinite(fg)))
        ctx.fail('success_reported_with_nonzero_residual', dict(case=brief, residual=res, nan=has_nan, where=ss.dae.xy_name[i], tol=tol, antiwindup_outside=aw_outside[:4]),
                 sig=dict(nan=has_nan, offline_model=info.get('offline_model'), offline_group=info.get('offline_group'),
                          where_var=ss.dae.xy_name[i].split()[0], where_model=(ss.dae.xy_name[i].split() + ['', ''])[1],
                          antiwindup_started_outside_limits=bool(aw_outside)))
        return          # the reported point is not an equilibrium: the clauses that presuppose one are not evaluated
    if (not test_ok) and actual_ok and res < 0.5 * tol:
        ctx.fail('failure_reported_with_zero_residual', dict(case=brief, residual=res, tol=tol), sig=dict())
    if (not test_ok) and ss.exit_code <= code0:
        ctx.fail('failed_initialisation_without_error_code', dict(case=brief, exit_code=ss.exit_code), sig=dict())
    # ---- (2) preconditions => success ---------------------------------------------------------------------------------
    flags_inside, at_limit = flags_at_bound(ss)
    gam_ok = True
    for name in ('GENROU', 'GENCLS', 'PLBVFU1'):
        pass
    sums = {}
    for mname, mdl in ss.exist.tds.items():
        if mdl.n and hasattr(mdl, 'gammap') and hasattr(mdl, 'gen'):
            for k in range(mdl.n):
                if mdl.u.v[k]:
                    s = sums.setdefault(mdl.gen.v[k], [0.0, 0.0])
                    s[0] += float(mdl.gammap.v[k])
                    s[1] += float(mdl.gammaq.v[k])
    if any(abs(a - 1) > 1e-9 or abs(b - 1) > 1e-9 for a, b in sums.values()):
        gam_ok = False
    refs_online = True
    for mname, mdl in ss.exist.tds.items():
        if mdl.n and hasattr(mdl, 'gen') and mdl.group in ('SynGen', 'RenGen', 'DG'):
            for k in range(mdl.n):
                if mdl.u.v[k] and mdl.gen.v[k] not in sg:
                    refs_online = False       # a dynamic generator replacing an offline / missing static generator
    well_posed_network = refs_online and not ss.Bus.nosw_island and not ss.Bus.msw_island and ss.Bus.n_islanded_buses == 0
    # every InitChecker (typical-range / consistency checks declared by the models) passes; recomputed here
    checkers_ok = True
    for mname, mdl in ss.exist.tds.items():
        if mdl.n == 0:
            continue
        for cname, chk in mdl.services_icheck.items():
            if not chk.enable:
                continue
            try:
                uv = np.asarray(chk.u.v, dtype=float)
                for limit, func in ((chk.lower, np.less_equal), (chk.upper, np.greater_equal),
                                    (chk.equal, lambda a, b: ~np.isclose(a, b)), (chk.not_equal, np.equal)):
                    if limit is not None and np.any(func(uv, np.asarray(limit.v, dtype=float))):
                        checkers_ok = False
            except Exception:
                pass
    pre = info['consistent'] and flags_inside and gam_ok and well_posed_network and checkers_ok
    if c['variant'] == 'dispatch' and not flags_inside:
        # many stock plants carry comparators / limiters that sit at a bound at their stock operating point and initialise
        # all the same; a re-dispatched plant whose discrete components are in exactly the state they have at the stock
        # dispatch (which initialises) is inside the same ranges
        ref = asis_reference(c['path'])
        if ref is not None and ref['test_ok'] and ref['at_limit'] == sorted(at_limit):
            ctx.count('dispatch:same_limiter_status_as_stock_dispatch')
            pre = info['consistent'] and gam_ok and well_posed_network and checkers_ok
    if c['variant'] == 'offline' and c.get('asis_ok') and info.get('offline_group') in OFFLINE_NEUTRAL and not test_ok and well_posed_network and gam_ok:
        i = int(np.nanargmax(np.abs(fg)))
        ctx.fail('offline_device_breaks_initialisation', dict(case=brief, residual=res, where=ss.dae.xy_name[i]),
                 sig=dict(offline_model=info.get('offline_model'), offline_group=info.get('offline_group')))
    if pre and not test_ok:
        i = int(np.nanargmax(np.abs(fg)))
        ctx.fail('consistent_case_fails_to_initialise', dict(case=brief, residual=res, where=ss.dae.xy_name[i], classes=classes),
                 sig=dict(path=c['path'], variant=c['variant'], offline_model=info.get('offline_model'), offline_group=info.get('offline_group')))
    if not pre:
        ctx.count('precondition:not_met' + ('' if info['consistent'] else ':inconsistent_by_construction')
                  + ('' if flags_inside else ':limiter_at_bound') + ('' if gam_ok else ':gamma_sum')
                  + ('' if well_posed_network else ':islands') + ('' if checkers_ok else ':init_checker'))
        if not info['consistent'] and test_ok and c['variant'] == 'split_bad':
            ctx.fail('inconsistent_split_factors_reported_as_success', dict(case=brief, residual=res), sig=dict())
    # ---- (3) consistency with the power flow ------------------------------------------------------------------------------
    # a static generator none of whose dynamic machines is in service keeps injecting: it must stay in service
    replaced = set()
    for mname, mdl in ss.exist.tds.items():
        if mdl.n and hasattr(mdl, 'gen') and hasattr(mdl, 'u'):
            replaced.update(mdl.gen.v[k] for k in range(mdl.n) if mdl.u.v[k])
    for name in ('PV', 'Slack'):
        mdl = ss.models[name]
        for k, idx in enumerate(mdl.idx.v):
            if idx in sg and idx not in replaced and not mdl.u.v[k]:
                ctx.fail('static_generator_switched_off_without_replacement', dict(case=brief, gen=repr(idx)), sig=dict())
    if test_ok:
        if np.any(ss.Bus.a.v != bus_a) or np.any(ss.Bus.v.v != bus_v):
            ctx.fail('bus_voltages_changed_by_initialisation', dict(case=brief, dv=float(np.max(np.abs(ss.Bus.v.v - bus_v)))), sig=dict())
        # dynamic machines deliver the static generator's power
        tot = {}
        for mname, mdl in ss.exist.tds.items():
            if mdl.n and hasattr(mdl, 'gen') and 'Pe' in mdl.__dict__ and 'Qe' in mdl.__dict__ \
                    and mdl.group in ('SynGen', 'RenGen', 'DG'):
                for k in range(mdl.n):
                    if mdl.u.v[k]:
                        s = tot.setdefault(mdl.gen.v[k], [0.0, 0.0])
                        s[0] += float(mdl.Pe.v[k])
                        s[1] += float(mdl.Qe.v[k])
                        # each machine takes its own declared share of the static generator's reactive power
                        if mdl.gen.v[k] in sg and hasattr(mdl, 'gammaq'):
                            share = sg[mdl.gen.v[k]][1] * float(mdl.gammaq.v[k])
                            if abs(float(mdl.Qe.v[k]) - share) > 100 * tol + 1e-3 * abs(share):
                                ctx.fail('machine_share_differs_from_split_factor',
                                         dict(case=brief, model=mname, device=repr(mdl.idx.v[k]), Qe=float(mdl.Qe.v[k]), expected=share,
                                              gammaq=float(mdl.gammaq.v[k])), sig=dict(which='Q'))
        for gidx, (pe, qe) in tot.items():
            if gidx in sg and gidx in sums and abs(sums[gidx][0] - 1) < 1e-9:
                p, q = sg[gidx]
                # Pe is the air-gap power of the machine: P + ra*I^2; compare Q exactly and P up to the armature loss
                if abs(qe - q) > 100 * tol + 1e-3 * abs(q):
                    ctx.fail('dynamic_injection_differs_from_power_flow', dict(case=brief, gen=repr(gidx), Qe=qe, q=q), sig=dict(which='Q'))
                if abs(pe - p) > 100 * tol + 0.02 * abs(p) + 1e-3:
                    ctx.fail('dynamic_injection_differs_from_power_flow', dict(case=brief, gen=repr(gidx), Pe=pe, p=p), sig=dict(which='P'))
                mdl = ss.StaticGen.idx2model(gidx)
                if mdl.u.v[mdl.idx2uid(gidx)] != 0:
                    ctx.fail('static_generator_left_online', dict(case=brief, gen=repr(gidx)), sig=dict())
        # undisturbed run stays put
        for m in ('Toggle', 'Fault', 'Alter'):
            if ss.models[m].n:
                ss.models[m].u.v[:] = 0
        x0 = ss.dae.x.copy()
        try:
            ok = ss.TDS.run()
        except Exception as e:
            ok = False
            ctx.count('flat_run_raised:' + type(e).__name__)
        if ok and len(x0) and ss.TimeSeries.n == 0:
            d = np.abs(ss.dae.x - x0)
            lim = 50 * tol * (1 + np.abs(x0))
            # states with zero time constant are algebraic; in bypassed higher-order filters they are undetermined
            lim = np.where(np.array(ss.dae.Tf) == 0, np.inf, lim)
            if np.any(d > lim):
                i = int(np.argmax(d - lim))
                ctx.fail('undisturbed_run_drifts', dict(case=brief, state=ss.dae.x_name[i], x0=float(x0[i]), x1=float(ss.dae.x[i]),
                                                        allowed=float(lim[i])), sig=dict(path=c['path'], **off))
            ctx.count('flat_run:checked')
    if len(classes) >= 2:
        ctx.nontrivial(brief, sample=dict(case=brief, classes=classes, test_ok=bool(test_ok), residual=res, precondition=pre))


def camp_init(ctx):
    quick = ctx.tier == 'quick'
    paths = dyn_paths(quick)

    def body(c):
        ctx.evaluated()
        init_case(ctx, c)
    # every stock case once, as it is (sharded), then generated variants
    for k, p in enumerate(paths):
        if k % ctx.nshards == ctx.shard and (not quick or k % 2 == ctx.seed % 2):
            c = dict(path=p, variant='asis', sel=0, gamma=0.5, bad_sum=1.2)
            ctx.current_case = c
            ctx.evaluated()
            init_case(ctx, c)
    if ctx.shard == 0 and os.path.isfile(os.path.join(build.cases_root(), 'ieee14/ieee14_solar.xlsx')):
        c = dict(path='ieee14/ieee14_solar.xlsx', variant='degenerate', sel=0, gamma=0.5, bad_sum=1.2, zip_p=None, zip_q=None,
                 degenerate_spec=[['REGCA1', 'Lvpnt0', 1.05], ['REGCA1', 'Lvpnt1', 1.10]])
        ctx.current_case = c
        ctx.evaluated()
        ctx.count('anchor:undefined_initial_value')
        init_case(ctx, c)
    # anchors: every converter-interfaced stock plant once at a reversed / reduced dispatch (storage charging)
    conv = [p for p in paths if any(t in p for t in ('esd1', 'pvd1', 'dgprct', 'solar', 'wt3', 'wtd', 'ev'))]
    for k, p in enumerate(conv):
        if k % ctx.nshards == ctx.shard:
            for f in (-0.5, 0.4):
                c = dict(path=p, variant='dispatch', factor=f, sel=(ctx.seed + k) % 4, gamma=0.5, bad_sum=1.2, zip_p=None, zip_q=None)
                ctx.current_case = c
                ctx.evaluated()
                ctx.count('anchor:redispatched_converter_plant')
                init_case(ctx, c)
    drive(ctx, init_cases(paths), body, 12 if quick else 120, name='init', chunk=6, shrink=False, budget_s=120 if quick else 1500)


def camp_offline_each(ctx):
    """Every dynamic model class that occurs in a stock case is taken out of service once (first case that has it; the device
    is drawn from the seed), next to the same case as it is."""
    quick = ctx.tier == 'quick'
    paths = dyn_paths(False)
    seen = {}
    for p in paths:
        try:
            ss0 = build.load_case(os.path.join(build.cases_root(), p), setup=False)
        except Exception:
            continue
        for m, mdl in ss0.models.items():
            if mdl.n and mdl.flags.tds and not mdl.flags.pflow and mdl.group in OFFLINE_NEUTRAL + ('DG', 'RenGen', 'RenExciter', 'RenPlant', 'Motor', 'VoltComp') \
                    and m not in seen:
                seen[m] = p
    todo = sorted(seen.items())
    asis = {}
    for k, (m, p) in enumerate(todo):
        if k % ctx.nshards != ctx.shard:
            continue
        if p not in asis:
            c0 = dict(path=p, variant='asis', sel=0, gamma=0.5, bad_sum=1.2)
            try:
                ss, _ = build_variant(c0)
                asis[p] = bool(ss.PFlow.run()) and (ss.TDS.init() is not None) and ss.TDS.test_ok is True
            except Exception:
                asis[p] = False
        c = dict(path=p, variant='offline', offline_model=m, sel=ctx.seed + k, gamma=0.5, bad_sum=1.2, asis_ok=asis[p])
        ctx.current_case = c
        ctx.evaluated()
        ctx.count('offline_each:' + m)
        try:
            init_case(ctx, c)
        except Violation as v:       # keep going: one root cause per model class
            ctx.record_violation(v, c, shrunk=False)


CAMPAIGNS = {
    'init': dict(fn=camp_init, shards=dict(quick=12, thorough=16)),
    'offline_each': dict(fn=camp_offline_each, shards=dict(quick=6, thorough=8)),
}


def replay(ctx, rec):
    init_case(ctx, rec['case'])
