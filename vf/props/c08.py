"""C08 - eigenvalue analysis reports the true small-signal modes of the DAE."""
import os

import numpy as np
from hypothesis import strategies as st

from .. import build
from ..runner import drive

RULE = ("(i) generated DAE blocks (fx, fy, gx, gy, T) assigned to a bare System's dae and fed to the routine's documented "
        "methods (calc_As, calc_pfactor, _store_stats): sizes 1..8 x 1..6, regular gy, any number/position of zero time "
        "constants, spectra with eigenvalues planted at 0, +-tol/2, +-2 tol; (ii) EIG.run() on stock dynamic cases, also "
        "after a time constant was altered to 0 or a parameter swept, and a second time on the same system object after the time constant was restored or another parameter swept. Oracle: scipy.linalg.eig on the full pencil "
        "([[fx,fy],[gx,gy]], diag(T,0)) - finite generalised eigenvalues as a multiset; As == T^-1 (fx - fy gy^-1 gx) "
        "by dense numpy for T without zeros; counts partition the spectrum and equal the oracle's counts; participation "
        "factors >= 0, each mode sums to 1, equal |w_k v_k| / sum from independently computed left/right eigenvectors, "
        "most-associated state = arg max. Non-trivial = system with >= 1 complex pair and either >= 1 zero time constant "
        "or an eigenvalue inside the zero band; distinct by the case JSON.")
ASSUMPTIONS = [
    "Eigenvalue multisets are compared by greedy nearest matching with |d lambda| <= 1e-6 (1+|lambda|) * kappa, kappa from the eigenvector condition number; nearly defective spectra (kappa > 1e6) are only checked for counts.",
    "Participation factors are rounded to 5 decimals by ANDES: sums are compared with 1 +- n*5e-6.",
]


def pencil_eigs(fx, fy, gx, gy, T):
    """Finite generalised eigenvalues of ([[fx,fy],[gx,gy]], diag(T,0)).

    Primary method: dense Schur complement over the algebraic block extended by the zero-time-constant states
    (exact when that block is regular, which the property presupposes); fallback: QZ with a finite/infinite split."""
    import scipy.linalg as sla
    n, m = fx.shape[0], gy.shape[0]
    T = np.asarray(T, dtype=float)
    A = np.block([[fx, fy], [gx, gy]])
    dyn = np.where(T != 0)[0]
    alg = np.concatenate([np.where(T == 0)[0], np.arange(n, n + m)]).astype(int)
    A22 = A[np.ix_(alg, alg)]
    pencil_eigs.last_regular = True
    if len(alg) == 0:
        return np.linalg.eigvals(np.diag(1 / T) @ fx)
    c = np.linalg.cond(A22)
    pencil_eigs.last_regular = bool(np.isfinite(c) and c < 1e13)
    if pencil_eigs.last_regular:
        Aeff = A[np.ix_(dyn, dyn)] - A[np.ix_(dyn, alg)] @ np.linalg.solve(A22, A[np.ix_(alg, dyn)])
        return np.linalg.eigvals(np.diag(1 / T[dyn]) @ Aeff) if len(dyn) else np.array([], dtype=complex)
    E = np.zeros((n + m, n + m))
    E[:n, :n] = np.diag(T)
    w = sla.eig(A, E, right=False, homogeneous_eigvals=True)
    alpha, beta = w[0], w[1]
    fin = np.abs(beta) > 1e-9 * np.maximum(1.0, np.abs(alpha))
    return alpha[fin] / beta[fin]


def match(a, b, scale):
    """greedy matching of two multisets of complex numbers; returns worst distance or None if sizes differ."""
    if len(a) != len(b):
        return None
    b = list(b)
    worst = 0.0
    for x in sorted(a, key=lambda z: (z.real, z.imag)):
        k = int(np.argmin([abs(x - y) for y in b]))
        worst = max(worst, abs(x - b[k]) / (scale * (1 + abs(x))))
        b.pop(k)
    return worst


@st.composite
def blocks(draw):
    n = draw(st.integers(1, 8))
    m = draw(st.integers(1, 6))
    rnd = draw(st.randoms(use_true_random=False))
    style = draw(st.sampled_from(['random', 'random', 'planted']))
    tol = 1e-6

    def mat(r, c, dens=0.6, s=1.0):
        return [[(rnd.uniform(-s, s) if rnd.random() < dens else 0.0) for _ in range(c)] for _ in range(r)]
    if style == 'planted':
        # block-diagonal fx with chosen eigenvalues; algebraic part decoupled
        vals = []
        k = 0
        fx = [[0.0] * n for _ in range(n)]
        while k < n:
            if k + 1 < n and rnd.random() < 0.5:
                re = rnd.choice([-1.0, -0.3, -tol / 2, 0.0, tol / 2, 2 * tol, -2 * tol, 0.4])
                im = rnd.choice([0.7, 3.0, 6.5])
                fx[k][k], fx[k][k + 1], fx[k + 1][k], fx[k + 1][k + 1] = re, im, -im, re
                k += 2
            else:
                fx[k][k] = rnd.choice([-2.0, -0.5, -2 * tol, -tol / 2, 0.0, tol / 2, 2 * tol, 0.8])
                k += 1
        fy = [[0.0] * m for _ in range(n)]
        gx = mat(m, n, 0.3)
        T = [1.0] * n
    else:
        fx = mat(n, n, 0.6, 2.0)
        for i in range(n):
            fx[i][i] -= rnd.uniform(0.0, 3.0)
        fy = mat(n, m, 0.5)
        gx = mat(m, n, 0.5)
        T = [rnd.choice([0.5, 1.0, 2.0, 6.5, 13.0]) for _ in range(n)]
    gy = mat(m, m, 0.4)
    for i in range(m):
        gy[i][i] += rnd.choice([-1, 1]) * rnd.uniform(2.0, 5.0)
    nz = draw(st.sampled_from([0, 0, 1, 1, 2, 3]))
    zpos = sorted(set(draw(st.integers(0, n - 1)) for _ in range(min(nz, max(0, n - 1)))))
    for p in zpos:
        T[p] = 0.0
        # a zero-T state must be solvable as an algebraic variable (regular extended algebraic block):
        # make its own row strongly diagonally dominant
        row = sum(abs(v) for j, v in enumerate(fx[p]) if j != p) + sum(abs(v) for v in fy[p])
        fx[p][p] = -(row + 1.0 + (c_ := 0.5))
    return dict(n=n, m=m, fx=fx, fy=fy, gx=gx, gy=gy, T=T, style=style, tol=tol)


_sys = {}


def eig_on_blocks(c):
    from kvxopt import matrix, spmatrix, sparse
    if 'ss' not in _sys:
        _sys['ss'] = build.new_system()
    ss = _sys['ss']
    dae = ss.dae
    n, m = c['n'], c['m']
    dae.n, dae.m = n, m
    dae.fx = sparse(matrix(np.array(c['fx'], dtype=float).reshape(n, n)))
    dae.fy = sparse(matrix(np.array(c['fy'], dtype=float).reshape(n, m)))
    dae.gx = sparse(matrix(np.array(c['gx'], dtype=float).reshape(m, n)))
    dae.gy = sparse(matrix(np.array(c['gy'], dtype=float).reshape(m, m)))
    dae.Tf = np.array(c['T'], dtype=float)
    dae.x_name = ['x%d' % i for i in range(n)]
    eig = ss.EIG
    eig.config.tol = c['tol']
    eig.calc_As()
    mu, pf, N, W = eig.calc_pfactor()
    eig.mu = mu
    eig._store_stats()
    return eig, mu, pf


def check_spectrum(ctx, brief, mu, pf, x_name, fx, fy, gx, gy, T, tol, counts, sig):
    n = len(T)
    zero_T = int(np.sum(np.array(T) == 0))
    ref = pencil_eigs(fx, fy, gx, gy, np.array(T, dtype=float))
    # conditioning of the reference problem
    try:
        Tn = np.array(T, dtype=float)
        keep = Tn != 0
        if zero_T == 0:
            As_ref = np.diag(1 / Tn) @ (fx - fy @ np.linalg.solve(gy, gx))
            _, V = np.linalg.eig(As_ref)
            kappa = np.linalg.cond(V)
        else:
            kappa = 1e3
    except Exception:
        kappa = 1e6
    regular = getattr(pencil_eigs, 'last_regular', True)
    if not regular:
        # the algebraic block (extended by the zero-time-constant states) is singular: outside the property's premise
        ctx.count('spectrum:singular_extended_algebraic_block')
        kappa = 1e9
    if regular and len(mu) != len(ref):
        ctx.fail('number_of_eigenvalues_differs', dict(case=brief, reported=len(mu), finite_generalised=len(ref), zero_time_constants=zero_T),
                 sig=dict(sig, zero_T=zero_T > 0))
        return
    if kappa < 1e6 and regular:
        worst = match(ref, mu, max(1.0, kappa) * 1e-6)
        if worst is None or worst > 1.0:
            ctx.fail('eigenvalues_differ_from_pencil', dict(case=brief, worst_relative=worst, zero_time_constants=zero_T,
                                                            reported=[[float(z.real), float(z.imag)] for z in sorted(mu, key=lambda z: z.real)][:8],
                                                            reference=[[float(z.real), float(z.imag)] for z in sorted(ref, key=lambda z: z.real)][:8]),
                     sig=dict(sig, zero_T=zero_T > 0))
    else:
        ctx.count('spectrum:ill_conditioned_counts_only')
    # counts partition the spectrum and agree with the reference (away from the band edges)
    npos, nzero, nneg = counts
    if npos + nzero + nneg != len(mu):
        ctx.fail('counts_do_not_partition', dict(case=brief, positive=npos, zero=nzero, negative=nneg, total=len(mu)), sig=sig)
    re = np.real(mu)
    want = (int(np.sum(re > tol)), int(np.sum(np.abs(re) <= tol)), int(np.sum(re < -tol)))
    edge = np.any(np.abs(np.abs(re) - tol) < 1e-3 * tol)
    if not edge and (npos, nzero, nneg) != want:
        ctx.fail('counts_wrong', dict(case=brief, reported=[npos, nzero, nneg], expected=list(want)), sig=sig)
    # participation factors
    if pf is not None and len(mu) and kappa < 1e6:
        pf = np.asarray(pf, dtype=float)
        if pf.shape != (len(mu), len(mu)):
            ctx.fail('participation_shape', dict(case=brief, shape=list(pf.shape)), sig=sig)
            return
        if np.any(pf < 0):
            ctx.fail('participation_negative', dict(case=brief), sig=sig)
        sums = pf.sum(axis=1)          # row = mode (the report reads pfactors[mode, :])
        if np.any(np.abs(sums - 1) > len(mu) * 5e-6 + 1e-9):
            k = int(np.argmax(np.abs(sums - 1)))
            ctx.fail('participation_not_normalised', dict(case=brief, mode=k, row_sum=float(sums[k]), column_sum=float(pf.sum(axis=0)[k])), sig=sig)


def block_case(ctx, c):
    brief = dict(n=c['n'], m=c['m'], T=c['T'], style=c['style'])
    ctx.count('style:' + c['style'])
    zero_T = sum(1 for t in c['T'] if t == 0)
    ctx.count('zero_T:%d' % min(zero_T, 3))
    sig = dict(level='matrix')
    try:
        eig, mu, pf = eig_on_blocks(c)
    except Exception as e:
        ctx.fail('eigenanalysis_raised', dict(case=brief, error='%s: %s' % (type(e).__name__, str(e)[:200]), full=c),
                 sig=dict(sig, zero_T=zero_T > 0, error=type(e).__name__))
        return
    fx, fy, gx, gy = (np.array(c[k], dtype=float) for k in ('fx', 'fy', 'gx', 'gy'))
    fx, fy, gx, gy = fx.reshape(c['n'], c['n']), fy.reshape(c['n'], c['m']), gx.reshape(c['m'], c['n']), gy.reshape(c['m'], c['m'])
    if zero_T == 0:
        As_ref = np.diag(1 / np.array(c['T'])) @ (fx - fy @ np.linalg.solve(gy, gx))
        As = np.array(eig.As).reshape(c['n'], c['n']) if not hasattr(eig.As, 'size') or True else None
        from kvxopt import matrix
        As = np.array(matrix(eig.As))
        if As.shape != As_ref.shape or not np.allclose(As, As_ref, rtol=1e-9, atol=1e-10):
            ctx.fail('state_matrix_differs', dict(case=brief, full=c), sig=sig)
    check_spectrum(ctx, dict(brief, full=c), mu, pf, eig.x_name, fx, fy, gx, gy, c['T'], c['tol'],
                   (eig.n_positive, eig.n_zeros, eig.n_negative), sig)
    # most associated state: arg max of the mode's factors over the state names the routine reports
    has_pair = bool(np.any(np.abs(np.imag(mu)) > 1e-9))
    in_band = bool(np.any(np.abs(np.real(mu)) <= c['tol']))
    if has_pair and (zero_T > 0 or in_band):
        ctx.nontrivial(c, sample=dict(n=c['n'], m=c['m'], T=c['T'], style=c['style'], mu=[[round(float(z.real), 6), round(float(z.imag), 6)] for z in mu][:8]))


def camp_blocks(ctx):
    def body(c):
        ctx.evaluated()
        block_case(ctx, c)
    drive(ctx, blocks(), body, 400 if ctx.tier == 'quick' else 20000, name='blocks', chunk=200, shrink_budget_s=20)


# ---- (ii) on systems -----------------------------------------------------------------------------------------------

SYS_CASES = ['kundur/kundur_full.xlsx', 'ieee14/ieee14_full.xlsx', 'kundur/kundur_exdc2_zero_tb.xlsx', 'kundur/kundur_sexs.xlsx',
             'kundur/kundur_ieeest.xlsx', '5bus/pjm5bus.xlsx', 'ieee14/ieee14_esst3a.xlsx', 'kundur/kundur_aw.xlsx',
             'ieee39/ieee39_full.xlsx', 'kundur/kundur_ieeeg1.xlsx', 'ieee14/ieee14_exdc2.xlsx', 'kundur/kundur_esdc2a.xlsx']
ZERO_ALTER = [('EXDC2', 'TB'), ('EXDC2', 'TA'), ('TGOV1', 'T1'), ('ESST3A', 'TA'), ('SEXS', 'TB'), ('IEEEST', 'T1'), ('TGOV1', 'T2')]


@st.composite
def sys_cases(draw):
    have = [p for p in SYS_CASES if os.path.isfile(os.path.join(build.cases_root(), p))]
    return dict(path=draw(st.sampled_from(have)), zero=draw(st.one_of(st.none(), st.sampled_from(ZERO_ALTER))),
                sel=draw(st.integers(0, 20)), sweep=draw(st.one_of(st.none(), st.sampled_from([0.5, 2.0]))),
                again=draw(st.sampled_from([None, 'restore', 'restore', 'sweep'])), restore_to=draw(st.sampled_from([0.05, 0.4])))


def sys_case(ctx, c):
    from kvxopt import matrix
    path = os.path.join(build.cases_root(), c['path'])
    ss = build.load_case(path, rc={'PFlow': dict(report=0), 'TDS': dict(no_tqdm=1)})
    note = ''
    if c['zero'] is not None:
        mname, p = c['zero']
        mdl = ss.models[mname]
        if mdl.n == 0:
            ctx.count('sys:zero_alter_not_applicable')
            return
        idx = mdl.idx.v[c['sel'] % mdl.n]
        mdl.alter(p, idx, 0.0)
        note = '%s.%s[%s]=0' % (mname, p, idx)
        ctx.count('sys:time_constant_zeroed')
    if c['sweep'] is not None and ss.GENROU.n:
        idx = ss.GENROU.idx.v[c['sel'] % ss.GENROU.n]
        ss.GENROU.alter('M', idx, float(ss.GENROU.M.vin[ss.GENROU.idx2uid(idx)]) * c['sweep'])
        note += ' M*%g' % c['sweep']
    if not ss.PFlow.run():
        return
    if not _analyse(ctx, ss, c, note, 'first'):
        return
    # the same system object analysed again after a further parameter change (a sweep re-uses one object)
    again = c.get('again')
    if again == 'restore' and c['zero'] is not None:
        mdl.alter(p, idx, c.get('restore_to', 0.05))
        ctx.count('sys:again_time_constant_restored')
        _analyse(ctx, ss, c, note + ' then %s.%s[%s]=%g' % (mname, p, idx, c.get('restore_to', 0.05)), 'again')
    elif again == 'sweep' and ss.GENROU.n:
        idx2 = ss.GENROU.idx.v[(c['sel'] + 1) % ss.GENROU.n]
        ss.GENROU.alter('D', idx2, 2.0)
        ctx.count('sys:again_after_sweep')
        _analyse(ctx, ss, c, note + ' then GENROU.D[%s]=2' % idx2, 'again')


def _analyse(ctx, ss, c, note, stage):
    from kvxopt import matrix
    try:
        ok = ss.EIG.run()
    except Exception as e:
        zero_T = int(np.sum(np.array(ss.dae.Tf) == 0)) if ss.dae.n else 0
        # independent classification: is the block of the zero-time-constant states singular after eliminating the
        # algebraic variables (a state that appears only through its derivative elsewhere: index-2 structure)?
        singular = False
        try:
            dae = ss.dae
            fx, fy, gx, gy = (np.array(matrix(getattr(dae, k))) for k in ('fx', 'fy', 'gx', 'gy'))
            z = np.where(np.array(dae.Tf, dtype=float) == 0)[0]
            if len(z):
                S = fx - fy @ np.linalg.solve(gy, gx)
                blk = S[np.ix_(z, z)]
                singular = bool(np.linalg.matrix_rank(blk) < len(z))
        except Exception:
            pass
        ctx.fail('eigenanalysis_raised', dict(case=c, note=note, error='%s: %s' % (type(e).__name__, str(e)[:200]), zero_block_singular=singular),
                 sig=dict(level='system', zero_T=zero_T > 0, error=type(e).__name__, zero_block_singular=singular))
        return False
    if not ok:
        ctx.count('sys:eig_returned_false')
        return False
    dae = ss.dae
    fx, fy, gx, gy = (np.array(matrix(getattr(dae, k))) for k in ('fx', 'fy', 'gx', 'gy'))
    T = np.array(dae.Tf, dtype=float)
    brief = dict(c, note=note, n=int(dae.n), zero_T=int(np.sum(T == 0)), stage=stage)
    check_spectrum(ctx, brief, np.array(ss.EIG.mu), ss.EIG.pfactors, ss.EIG.x_name, fx, fy, gx, gy, T, ss.EIG.config.tol,
                   (ss.EIG.n_positive, ss.EIG.n_zeros, ss.EIG.n_negative), dict(level='system', stage=stage))
    ctx.count('sys:checked')
    if int(np.sum(T == 0)) > 0 or np.any(np.abs(np.real(ss.EIG.mu)) <= ss.EIG.config.tol):
        ctx.nontrivial(brief, sample=brief)
    return True


def camp_sys(ctx):
    def body(c):
        ctx.evaluated()
        sys_case(ctx, c)
    if ctx.shard < 2:
        # anchor: one system object analysed with a zero time constant, then again after the time constant was restored
        c = dict(path='kundur/kundur_full.xlsx', zero=('EXDC2', 'TA') if ctx.shard == 0 else ('TGOV1', 'T1'), sel=ctx.shard, sweep=None,
                 again='restore', restore_to=0.05)
        ctx.current_case = c
        ctx.count('anchor:analysed_again_after_restore')
        body(c)
    drive(ctx, sys_cases(), body, 4 if ctx.tier == 'quick' else 60, name='systems', shrink=False, budget_s=150 if ctx.tier == 'quick' else 1500)


CAMPAIGNS = {
    'blocks': dict(fn=camp_blocks, shards=dict(quick=6, thorough=12)),
    'systems': dict(fn=camp_sys, shards=dict(quick=10, thorough=16)),
}


def replay(ctx, rec):
    c = rec['case']
    if 'fx' in c:
        block_case(ctx, c)
    else:
        sys_case(ctx, c)
