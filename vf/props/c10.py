"""C10 - variable addressing is a bijection and external links follow device indices."""
import os

import numpy as np
from hypothesis import strategies as st

from .. import build
from ..gen import net as gnet
from ..runner import drive

RULE = ("Systems: stock dynamic/static cases re-built from their own input rows with a drawn per-model insertion "
        "order and drawn idx renaming (int<->str, consistent across all references), generated static networks "
        "(mixed idx), models left empty, collated storage switched on for drawn models. Both addressing phases: after "
        "setup() and after TDS.init(). Oracle (set-theoretic): internal variable address arrays pairwise disjoint, one "
        "slot per device, union == range(n)/range(m); slot names parse to (variable, model, idx) of the owner; "
        "phase-1 addresses unchanged by phase 2 and the power-flow solution still in place; every external "
        "variable/parameter/service element k equals the source quantity of the device whose idx is indexer[k] "
        "(looked up in an idx->(model, position) dictionary built from the rows); Model.get, Group.get and dae.x/y "
        "return the same number. Non-trivial = system with >= 3 populated models and a non-identity insertion order or "
        "renamed idx; distinct by (case, order, renaming, collate).")
ASSUMPTIONS = [
    "Device idx used as reference values are compared with ==; 3 and 3.0 are the same idx.",
    "The re-ordered twin is built from as_dict(vin=True) rows of the stock case (input-base values).",
]

SKIP_FIELDS = {'name'}


def rename_rows(rows, ss, mode):
    """Consistently rename idx of every device: int->str / str->int / keep. Returns new rows."""
    if mode == 'keep':
        return rows
    # map (group, old idx) -> new idx
    gmap = {}
    counter = [50000]
    for name, rr in rows.items():
        g = ss.models[name].group
        for r in rr:
            if 'idx' not in r:
                continue
            old = r['idx']
            if isinstance(old, str):
                counter[0] += 1
                new = counter[0]
            else:
                new = 'i%s' % (int(old) if float(old).is_integer() else old)
            gmap[(g, _k(old))] = new
    out = {}
    for name, rr in rows.items():
        mdl = ss.models[name]
        g = mdl.group
        nr = []
        for r in rr:
            r2 = dict(r)
            if 'idx' in r:
                r2['idx'] = gmap[(g, _k(r['idx']))]
            for f, p in mdl.idx_params.items():
                if f not in r2 or r2[f] is None or f == 'idx':
                    continue
                tgt = p.model
                if tgt is None:
                    # the target is named by whatever external quantity uses this parameter as its indexer
                    for ext in list(mdl.cache.vars_ext.values()) + list(mdl.params_ext.values()) + list(mdl.services_ext.values()):
                        if getattr(ext, 'indexer', None) is p:
                            tgt = ext.model
                            break
                if tgt is None:
                    continue
                tg = ss.models[tgt].group if tgt in ss.models else (tgt if tgt in ss.groups else None)
                if tg is None:
                    continue
                v = r2[f]
                if isinstance(v, float) and v != v:
                    continue
                if (tg, _k(v)) in gmap:
                    r2[f] = gmap[(tg, _k(v))]
            nr.append(r2)
        out[name] = nr
    # Toggle/Alter/Fault style 'dev' references (model named in another column)
    for name in ('Toggle', 'Toggler', 'Alter', 'TimeSeries'):
        if name in out:
            for r in out[name]:
                tm = r.get('model')
                if tm in ss.models and (ss.models[tm].group, _k(r.get('dev'))) in gmap:
                    r['dev'] = gmap[(ss.models[tm].group, _k(r['dev']))]
                elif tm in ss.groups and (tm, _k(r.get('dev'))) in gmap:
                    r['dev'] = gmap[(tm, _k(r['dev']))]
    return out


def _k(v):
    if isinstance(v, float) and v.is_integer():
        return int(v)
    return v


def check_addressing(ctx, ss, case, phase, prev=None):
    dae = ss.dae
    models = ss.exist.pflow if phase == 1 else ss.exist.pflow_tds
    sig = dict(phase=phase)
    for code, total in (('x', dae.n), ('y', dae.m)):
        owner = {}
        for mname, mdl in ss.models.items():
            if mdl.n == 0 or not mdl.flags.address:
                continue
            vars_ = mdl.states if code == 'x' else mdl.algebs
            for vname, var in vars_.items():
                a = np.asarray(var.a)
                if len(a) != mdl.n:
                    ctx.fail('slot_count_wrong', dict(case=case, model=mname, var=vname, slots=len(a), devices=mdl.n), sig=sig)
                for k, addr in enumerate(a):
                    addr = int(addr)
                    if addr in owner:
                        ctx.fail('slot_owned_twice', dict(case=case, address=addr, first=owner[addr], second=[mname, vname, k]), sig=sig)
                    owner[addr] = (mname, vname, k)
        if set(owner) != set(range(total)):
            missing = sorted(set(range(total)) - set(owner))[:5]
            extra = sorted(set(owner) - set(range(total)))[:5]
            ctx.fail('slots_not_a_bijection', dict(case=case, array=code, size=total, owned=len(owner), unowned=missing, out_of_range=extra), sig=sig)
        names = dae.x_name if code == 'x' else dae.y_name
        for addr, (mname, vname, k) in owner.items():
            idx = ss.models[mname].idx.v[k]
            want = '%s %s' % (vname, _append_model_name(mname, idx))
            if addr >= len(names) or names[addr] != want:
                ctx.fail('slot_name_wrong', dict(case=case, address=addr, name=names[addr] if addr < len(names) else None, expected=want), sig=sig)
    ctx.count('phase%d:systems' % phase)
    # ---- external links follow idx ---------------------------------------------------------------------
    lookup = {}
    for mname, mdl in ss.models.items():
        if not hasattr(mdl, 'idx'):
            continue
        for k, idx in enumerate(mdl.idx.v):
            lookup[(mdl.group, _k(idx))] = (mname, k)
    nlinks = 0
    for mname, mdl in ss.models.items():
        if mdl.n == 0 or mname not in models:
            continue
        for vname, var in mdl.cache.vars_ext.items():
            if var.indexer is None:
                continue
            iv = var.indexer.v
            if len(iv) > 0 and isinstance(iv[0], (list, np.ndarray)):
                flat = [x for sub in iv for x in sub]
            else:
                flat = list(iv)
            tgt = var.model
            tgroup = ss.models[tgt].group if tgt in ss.models else tgt
            if type(var.indexer).__name__ == 'IdxRepeat':
                # the indexer is itself derived (own idx repeated once per referring device): recompute it from the
                # index fields of the referring devices
                br = var.indexer.ref
                want = []
                for d, didx in enumerate(mdl.idx.v):
                    cnt = 0
                    for m2 in ss.models.values():
                        if m2.n == 0 or m2.group != br.name:
                            continue
                        for ip in m2.idx_params.values():
                            if ip.model in (mdl.class_name, mdl.group):
                                cnt += sum(1 for x in ip.v if _k(x) == _k(didx))
                    want.extend([didx] * cnt)
                if [_k(x) for x in want] != [_k(x) for x in flat]:
                    ctx.fail('derived_indexer_wrong', dict(case=case, model=mname, var=vname, indexer=[repr(x) for x in flat][:12],
                                                           expected=[repr(x) for x in want][:12]), sig=sig)
            if type(var.indexer).__name__ == 'RefFlatten':
                # a flattened reverse link: for device d (in order) the devices of the referring group whose index field names
                # d; recomputed here from those index fields (a multiset per device)
                br = var.indexer.ref
                pos_ = 0
                for d, didx in enumerate(mdl.idx.v):
                    want = []
                    for m2 in ss.models.values():
                        if m2.n == 0 or br.name not in (m2.group, m2.class_name):
                            continue
                        for ip in m2.idx_params.values():
                            if ip.model in (mdl.class_name, mdl.group):
                                want.extend(m2.idx.v[j] for j, x in enumerate(ip.v) if x is not None and _k(x) == _k(didx))
                    got = flat[pos_:pos_ + len(want)]
                    pos_ += len(want)
                    if sorted(repr(_k(x)) for x in got) != sorted(repr(_k(x)) for x in want):
                        ctx.fail('reverse_link_wrong', dict(case=case, model=mname, var=vname, device=repr(didx),
                                                            linked=[repr(x) for x in got][:10], expected=[repr(x) for x in want][:10]), sig=sig)
                    ctx.count('reverse_links_checked')
                if pos_ != len(flat):
                    ctx.fail('reverse_link_wrong', dict(case=case, model=mname, var=vname, linked_total=len(flat), expected_total=pos_), sig=sig)
            if type(var.indexer).__name__ == 'BackRef' and len(iv) == mdl.n:
                # a reverse link: element d lists the devices of the referring group whose index field names device d;
                # recomputed here from those index fields (as a multiset per device)
                br = var.indexer
                for d, didx in enumerate(mdl.idx.v):
                    want = []
                    for m2 in ss.models.values():
                        if m2.n == 0 or br.name not in (m2.group, m2.class_name):
                            continue
                        for ip in m2.idx_params.values():
                            if ip.model in (mdl.class_name, mdl.group):
                                want.extend(m2.idx.v[j] for j, x in enumerate(ip.v) if x is not None and _k(x) == _k(didx))
                    got = list(iv[d]) if isinstance(iv[d], (list, np.ndarray)) else [iv[d]]
                    if sorted(repr(_k(x)) for x in got) != sorted(repr(_k(x)) for x in want):
                        ctx.fail('reverse_link_wrong', dict(case=case, model=mname, var=vname, device=repr(didx),
                                                            linked=[repr(x) for x in got][:10], expected=[repr(x) for x in want][:10]), sig=sig)
                    ctx.count('reverse_links_checked')
            if len(flat) != len(var.a):
                ctx.fail('external_link_length', dict(case=case, model=mname, var=vname, n_index=len(flat), n_addr=len(var.a)), sig=sig)
            for k, ref in enumerate(flat):
                if ref is None or (isinstance(ref, float) and ref != ref):
                    continue
                key = (tgroup, _k(ref))
                if key not in lookup:
                    continue
                smodel, pos = lookup[key]
                if tgt in ss.models and smodel != tgt:
                    continue
                src = ss.models[smodel].__dict__.get(var.src)
                if src is None or not hasattr(src, 'a') or len(src.a) <= pos:
                    continue
                if int(var.a[k]) != int(src.a[pos]):
                    ctx.fail('external_variable_link_wrong',
                             dict(case=case, model=mname, var=vname, element=k, refers_to=repr(ref), address=int(var.a[k]),
                                  expected=int(src.a[pos]), source='%s.%s' % (smodel, var.src)), sig=sig)
                nlinks += 1
        for pname, par in mdl.params_ext.items():
            if par.indexer is None:
                continue
            tgt = par.model
            tgroup = ss.models[tgt].group if tgt in ss.models else tgt
            for k, ref in enumerate(par.indexer.v):
                if ref is None or (isinstance(ref, float) and ref != ref):
                    continue
                key = (tgroup, _k(ref))
                if key not in lookup:
                    continue
                smodel, pos = lookup[key]
                srcp = ss.models[smodel].__dict__.get(par.src)
                if srcp is None or not hasattr(srcp, 'v'):
                    continue
                got, want = par.v[k], srcp.v[pos]
                # the link is about *which device*; a value copied before per-unit conversion (input base) also
                # identifies the right device
                vin = getattr(srcp, 'vin', None)
                if vin is not None and len(vin) > pos:
                    try:
                        if bool(got == vin[pos]):
                            want = vin[pos]
                    except Exception:
                        pass
                def missing(z):
                    return z is None or (isinstance(z, (float, np.floating)) and z != z)
                try:
                    same = bool(got == want) or (missing(got) and missing(want))
                except Exception:
                    same = repr(got) == repr(want)
                if not same:
                    ctx.fail('external_parameter_link_wrong',
                             dict(case=case, model=mname, param=pname, element=k, refers_to=repr(ref), value=repr(got),
                                  expected=repr(want), source='%s.%s' % (smodel, par.src)), sig=sig)
                nlinks += 1
    ctx.count('links_checked', nlinks)
    # ---- the same number through model, group and global vector --------------------------------------------
    nget = 0
    for mname, mdl in ss.models.items():
        if mdl.n == 0 or not mdl.flags.address or mname not in models:
            continue
        grp = ss.groups[mdl.group]
        for vname, var in list(mdl.states.items()) + list(mdl.algebs.items()):
            arr = dae.x if var.v_code == 'x' else dae.y
            ks = sorted(set([0, mdl.n - 1, mdl.n // 2]))
            for k in ks:
                idx = mdl.idx.v[k]
                v_vec = arr[int(var.a[k])]
                v_mod = mdl.get(src=vname, idx=idx, attr='v')
                same = v_mod == v_vec or (v_mod != v_mod and v_vec != v_vec)
                if not same:
                    ctx.fail('model_get_differs_from_vector', dict(case=case, model=mname, var=vname, idx=repr(idx), via_model=float(v_mod), via_vector=float(v_vec)), sig=sig)
                if vname in grp.common_vars:
                    v_grp = grp.get(src=vname, idx=idx, attr='v')
                    if not (v_grp == v_vec or (v_grp != v_grp and v_vec != v_vec)):
                        ctx.fail('group_get_differs_from_vector', dict(case=case, group=mdl.group, var=vname, idx=repr(idx), via_group=float(v_grp), via_vector=float(v_vec)), sig=sig)
                nget += 1
    ctx.count('reads_compared', nget)
    snap = {}
    for mname, mdl in ss.models.items():
        if mdl.n and mdl.flags.address:
            for vname, var in list(mdl.states.items()) + list(mdl.algebs.items()):
                snap[(mname, vname)] = np.array(var.a, copy=True)
    if prev is not None:
        for key, a in prev.items():
            if key in snap and (len(a) != len(snap[key]) or np.any(a != snap[key])):
                ctx.fail('phase1_address_changed_in_phase2', dict(case=case, var=list(key)), sig=sig)
    return snap


def _append_model_name(model_name, idx):
    out = ''
    if isinstance(idx, str) and (model_name in idx):
        out = idx
    else:
        out = f'{model_name} {idx}'
    out = out.replace('_', ' ')
    return out


def run_case(ctx, case):
    if case['source'] == 'stock':
        path = os.path.join(build.cases_root(), case['path'])
        try:
            ss0 = build.load_case(path)
        except Exception:
            ctx.count('load_error')
            return
        if ss0 is None or not ss0.is_setup:
            ctx.count('load_error')
            return
        rows = build.rows_of(ss0)
        rows = rename_rows(rows, ss0, case['rename'])
        order = {}
        for name, rr in rows.items():
            n = len(rr)
            perm = list(range(n))
            if case['permute']:
                # deterministic permutation from the drawn key
                key = case['perm_key']
                perm = sorted(range(n), key=lambda i: ((i * 7919 + key * 104729) % (n + 3), i))
            order[name] = perm
        if case.get('extra_unreferenced'):
            # a device nobody refers to, stored in front of the referenced ones (reverse links must skip it correctly)
            for name in ('COI', 'Area'):
                if name in rows and rows[name]:
                    extra = dict(rows[name][0])
                    extra['idx'] = 'UNREF_%s' % name
                    extra['name'] = 'unreferenced'
                    rows[name] = [extra] + rows[name]
                    order[name] = [0] + [k + 1 for k in order[name]]
                    ctx.count('extra_unreferenced:' + name)
        if case.get('blank_refs'):
            # some devices do not name a centre of inertia / area-level device although their neighbours do
            for name, rr in rows.items():
                hit = [k for k, r in enumerate(rr) if r.get('coi') is not None]
                if len(hit) >= 2:
                    sel = [k for n_, k in enumerate(hit) if (case['perm_key'] >> (n_ % 5)) & 1] or hit[:1]
                    if len(sel) == len(hit):
                        sel = sel[:-1]
                    for k in sel:
                        rr[k]['coi'] = None
                    ctx.count('blank_refs:' + name)
        morder = list(rows)
        if case['permute'] and case['perm_key'] % 2:
            # Bus and other referenced models may come later: add() does not need the targets to exist
            morder = morder[::-1]
        files_dir = os.path.dirname(path)
        cwd = os.getcwd()
        try:
            os.chdir(files_dir)     # side files (TimeSeries paths) are relative to the case directory
            ss = build.system_from_rows(rows, order=order, model_order=morder, setup=False,
                                        rc={'PFlow': dict(report=0), 'TDS': dict(no_tqdm=1)})
            for m in case.get('collate', []):
                if m in ss.models and m != 'Bus':
                    ss.models[m].flags.collate = True
            ok = ss.setup()
        except Exception as e:
            ctx.count('twin_build_raised:' + type(e).__name__)
            ctx.note('twin of %s (%s) could not be built: %s' % (case['path'], case['rename'], str(e)[:120]))
            os.chdir(cwd)
            return
        finally:
            os.chdir(cwd)
        if not ok:
            ctx.count('twin_setup_false')
            return
    else:
        ss = build.build_static(case['net'], rc={'PFlow': dict(report=0)})
    snap = check_addressing(ctx, ss, _brief(case), 1)
    populated = sum(1 for m in ss.models.values() if m.n > 0)
    try:
        pf = ss.PFlow.run()
    except Exception:
        pf = False
    if pf:
        ysol = ss.dae.y.copy()
        m1 = ss.dae.m
        try:
            ss.TDS.init()
        except Exception as e:
            ctx.count('tds_init_raised:' + type(e).__name__)
            ctx.note('TDS.init raised %s on %s: %s' % (type(e).__name__, _brief(case), str(e)[:150]))
            pf = False
        if pf:
            check_addressing(ctx, ss, _brief(case), 2, prev=snap)
            if np.any(ss.dae.y[:m1][ss.Bus.a.a] != ysol[ss.Bus.a.a]) or np.any(ss.dae.y[:m1][ss.Bus.v.a] != ysol[ss.Bus.v.a]):
                ctx.fail('power_flow_solution_not_kept', dict(case=_brief(case)), sig=dict(phase=2))
    nonid = case['source'] != 'stock' or case.get('permute') or case.get('rename') != 'keep'
    if populated >= 3 and nonid:
        ctx.nontrivial(_brief(case), sample=dict(case=_brief(case), populated_models=populated, n=int(ss.dae.n), m=int(ss.dae.m)))


def _brief(case):
    if case['source'] == 'stock':
        return {k: case[k] for k in ('source', 'path', 'rename', 'permute', 'perm_key', 'collate')}
    return dict(source='net', nbus=len(case['net']['buses']), idx_style=case['net'].get('idx_style'),
                order=case['net'].get('order', {}).get('buses'))


def stock_paths(quick):
    out = []
    for p in build.stock_cases(('.xlsx', '.json')):
        rel = os.path.relpath(p, build.cases_root())
        if os.path.getsize(p) > (150000 if quick else 700000):
            continue
        if rel.startswith(('EI', 'ei')):
            continue
        out.append(rel)
    return out


@st.composite
def cases(draw, paths):
    if draw(st.integers(0, 3)) == 0:
        return dict(source='net', net=draw(gnet.networks(max_buses=8)))
    coll = draw(st.lists(st.sampled_from(['GENROU', 'PQ', 'Line', 'EXDC2', 'TGOV1', 'PV', 'GENCLS', 'Shunt']), max_size=2, unique=True))
    return dict(source='stock', path=draw(st.sampled_from(paths)), rename=draw(st.sampled_from(['keep', 'flip', 'flip'])),
                permute=draw(st.booleans()), perm_key=draw(st.integers(0, 50)),
                collate=coll if draw(st.integers(0, 3)) == 0 else [], extra_unreferenced=draw(st.booleans()),
                blank_refs=draw(st.booleans()))


def camp_addr(ctx):
    quick = ctx.tier == 'quick'
    paths = stock_paths(quick)

    def body(case):
        ctx.evaluated()
        ctx.count('source:' + case['source'])
        if case['source'] == 'stock':
            ctx.count('rename:' + case['rename'])
            if case['collate']:
                ctx.count('collate:on')
        run_case(ctx, case)
    if ctx.shard == 0:
        # anchor: reverse links (COI <- generators) with an unreferenced device stored first
        for pth in ('kundur/kundur_coi.xlsx', 'kundur/kundur_coi.json'):
            if os.path.isfile(os.path.join(build.cases_root(), pth)):
                case = dict(source='stock', path=pth, rename='keep', permute=False, perm_key=0, collate=[], extra_unreferenced=True)
                ctx.current_case = case
                ctx.count('anchor:unreferenced_first')
                body(case)
                for key in (1, 2, 5):
                    case = dict(source='stock', path=pth, rename='keep', permute=False, perm_key=key, collate=[], extra_unreferenced=False,
                                blank_refs=True)
                    ctx.current_case = case
                    ctx.count('anchor:partly_referenced')
                    body(case)
                break
    drive(ctx, cases(paths), body, 8 if quick else 120, name='addr', chunk=8, shrink=False,
          budget_s=150 if quick else 1500)


CAMPAIGNS = {
    'addressing': dict(fn=camp_addr, shards=dict(quick=16, thorough=16)),
}


def replay(ctx, rec):
    run_case(ctx, rec['case'])
