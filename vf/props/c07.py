"""C07 - simulated trajectories agree with an independent reference solution."""
import os

import numpy as np
from hypothesis import strategies as st

from .. import build, sim
from ..oracle import smib as osmib
from ..runner import drive
from . import c06, c08

RULE = ("(a) single-machine benchmark: generated inertia, damping, transient reactance, 2..3 parallel lines with drawn r/x/"
        "charging, loading, terminal/infinite-bus set-points and a line-switching schedule that always leaves a line in "
        "service; both integration methods; step sizes 1/30, 1/60, 1/120. Reference: swing equation integrated by "
        "scipy solve_ivp (rtol 1e-11) between switchings with electrical power from an independent complex nodal "
        "solution. Oracle: max |delta_h - delta_ref| <= 2 max|delta_h - delta_h/2| + event floor + 50 tol, and the error "
        "does not grow when the step is halved. (b) small-signal benchmark: stock dynamic cases kicked by tripping and "
        "reclosing a line for 5..20 ms, or by perturbing the state vector along a drawn direction between two segments of a "
        "run at rest (algebraic variables moved consistently); from the simulated state just after the kick the response is predicted by the "
        "matrix exponential of the state matrix computed by an independent dense reduction of the Jacobians at the "
        "equilibrium; deviation <= 5 % of the excursion + 2 |x_h - x_h/2| + 50 tol. Non-trivial: (a) swing with "
        "peak-to-peak delta > 0.05 rad and >= 1 switching; (b) kick exciting a state by > 1e-3. Distinct by case JSON.")
ASSUMPTIONS = [
    "The infinite bus is a Slack generator without dynamic model (ANDES keeps it as an ideal voltage source during simulation).",
    "Event floor of (a): the documented +-1e-4 s event half-steps, bounded by 1e-4 * |dP|/M * 2 pi f * (tf - t_e) per event.",
    "(b) is judged only when the kick is small enough: excursion < 0.1 (p.u./rad) and no limiter changes state.",
]


@st.composite
def smib_cases(draw):
    nl = draw(st.integers(2, 3))
    lines = []
    for k in range(nl):
        x = float(round(draw(st.floats(0.1, 0.6)), 3))
        lines.append(dict(r=float(round(x * draw(st.sampled_from([0.0, 0.05, 0.2])), 4)), x=x,
                          b=draw(st.sampled_from([0.0, 0.0, 0.05])), u=1))
    M = float(round(draw(st.floats(2.0, 12.0)), 2))
    c = dict(M=M, D=draw(st.sampled_from([0.0, 0.0, 1.0, 4.0])), xd1=float(round(draw(st.floats(0.15, 0.4)), 3)),
             p=float(round(draw(st.floats(0.2, 0.9)), 3)), v1=draw(st.sampled_from([1.0, 1.02, 1.05])), v2=draw(st.sampled_from([1.0, 0.98])),
             lines=lines, method=draw(st.sampled_from(['trapezoid', 'trapezoid', 'backeuler'])), tf=draw(st.sampled_from([1.5, 2.5])),
             load=draw(st.sampled_from([0.0, 0.0, 0.2])))
    ev = []
    state = [1] * nl
    t = 0.0
    for _ in range(draw(st.integers(1, 3))):
        # switching times: rounded to 4 decimals, or with all their binary digits (e.g. 5/6, k/30 + a computed delay)
        t = t + draw(st.floats(0.05, 0.6))
        t = float(round(t, 4)) if draw(st.integers(0, 2)) else float(t)
        if t >= c['tf'] - 0.2:
            break
        k = draw(st.integers(0, nl - 1))
        s2 = list(state)
        s2[k] = 1 - s2[k]
        if sum(s2) == 0:
            continue
        state = s2
        ev.append([t, k])
    c['events'] = ev
    return c


def andes_smib(c, tstep, tol):
    rc = {'PFlow': dict(report=0, tol=1e-10), 'TDS': dict(no_tqdm=1, tf=c['tf'], tstep=tstep, tol=tol, method=c['method'], criteria=0,
                                                            honest=1 if tol < 1e-6 else 0)}
    ss = build.new_system(rc)
    ss.add('Bus', dict(idx=1, Vn=110.0))
    ss.add('Bus', dict(idx=2, Vn=110.0))
    for k, ln in enumerate(c['lines']):
        ss.add('Line', dict(idx='L%d' % k, bus1=1, bus2=2, r=ln['r'], x=ln['x'], b=ln['b'], Vn1=110.0, Vn2=110.0, Sn=100.0))
    ss.add('PV', dict(idx='G1', bus=1, p0=c['p'], v0=c['v1'], Vn=110.0, Sn=100.0))
    ss.add('Slack', dict(idx='G2', bus=2, v0=c['v2'], a0=0.0, Vn=110.0, Sn=100.0))
    if c['load']:
        ss.add('PQ', dict(idx='D1', bus=1, p0=c['load'], q0=0.05, Vn=110.0))
    ss.add('GENCLS', dict(idx='M1', bus=1, gen='G1', Sn=100.0, Vn=110.0, M=c['M'], D=c['D'], xd1=c['xd1'], ra=0.0))
    for j, (t, k) in enumerate(c['events']):
        ss.add('Toggle', dict(idx='T%d' % j, model='Line', dev='L%d' % k, t=t))
    ss.setup()
    if not ss.PFlow.run():
        return None
    pf = dict(V1=complex(ss.Bus.v.v[0] * np.exp(1j * ss.Bus.a.v[0])), V2=complex(ss.Bus.v.v[1] * np.exp(1j * ss.Bus.a.v[1])),
              P=float(ss.PV.p.v[0]), Q=float(ss.PV.q.v[0]))
    ok = ss.TDS.run()
    a_d, a_w = int(ss.GENCLS.delta.a[0]), int(ss.GENCLS.omega.a[0])
    return dict(ok=bool(ok), t=np.array(ss.dae.ts.t), delta=np.array(ss.dae.ts.x[:, a_d]), omega=np.array(ss.dae.ts.x[:, a_w]), pf=pf,
                test_ok=ss.TDS.test_ok)


def smib_case(ctx, c):
    brief = dict(c)
    runs = {}
    # backward Euler damps the undamped swing so strongly that the asymptotic regime starts at smaller steps
    H = (1 / 30, 1 / 60, 1 / 120) if c['method'] == 'trapezoid' else (1 / 120, 1 / 240, 1 / 480)
    for h in H:
        r = andes_smib(c, h, 1e-8)
        if r is None or not r['ok']:
            ctx.count('smib:run_failed')
            return
        runs[h] = r
    pf = runs[H[0]]['pf']
    yload = 0j
    if c['load']:
        yload = complex(c['load'], -0.05) / abs(pf['V1']) ** 2
    # generator delivers P to the bus in addition to the local load
    ref_case = dict(M=c['M'], D=c['D'], xd1=c['xd1'], ra=0.0, fn=60.0, lines=[dict(l) for l in c['lines']], events=[tuple(e) for e in c['events']],
                    V2=pf['V2'], P=pf['P'], Q=pf['Q'], V1=pf['V1'], yload=yload)
    errs = {}
    ref_at = {}
    for h, r in runs.items():
        dref, wref, info = osmib.simulate(ref_case, r['t'])
        errs[h] = float(np.max(np.abs(r['delta'] - dref)))
        ref_at[h] = dref
    # discretisation estimate: compare h and h/2 at the common stamps of the coarse run
    t30 = runs[H[0]]['t']
    d60 = np.interp(t30, runs[H[1]]['t'], runs[H[1]]['delta'])
    est = float(np.max(np.abs(runs[H[0]]['delta'] - d60)))
    swing = float(np.ptp(ref_at[H[0]]))
    # event floor
    floor = 0.0
    for (te, k) in c['events']:
        floor += 1e-4 * (abs(pf['P']) + 1.0) / c['M'] * 2 * np.pi * 60.0 * (c['tf'] - te) * 1e-1
    # err(h) ~ C h^p and est = |x_h - x_h/2| ~ C h^p (1 - 2^-p): err/est -> 4/3 (p=2), 2 (p=1); higher-order terms
    # are covered by the factors 2 and 3.5
    fac = 2.0 if c['method'] == 'trapezoid' else 3.5
    bound = fac * est + floor + 50 * 1e-8 + 1e-6
    ctx.count('method:' + c['method'])
    sig = dict(method=c['method'])
    if c['method'] == 'trapezoid':
        if errs[H[0]] > bound:
            ctx.fail('trajectory_differs_from_reference', dict(case=brief, err_h=errs, estimate=est, bound=bound, swing=swing), sig=sig)
    else:
        # first-order method with strong numerical damping: judge convergence towards the reference instead of the
        # (non-asymptotic) halving estimate: monotone decrease, a clear reduction over two halvings, and a Richardson
        # extrapolate that is closer to the reference than the finest run
        t3 = runs[H[2]]['t']
        d2_on_3 = np.interp(t3, runs[H[1]]['t'], runs[H[1]]['delta'])
        extrap = 2 * runs[H[2]]['delta'] - d2_on_3
        e_x = float(np.max(np.abs(extrap - ref_at[H[2]])))
        if errs[H[0]] <= floor + 1e-6:
            ctx.count('smib:error_below_floor_not_ranked')        # nothing swings (e.g. local load equals the generation)
        elif not (errs[H[2]] < errs[H[1]] < errs[H[0]]) or errs[H[2]] > 0.8 * errs[H[0]] + floor + 1e-6 \
                or e_x > 0.75 * errs[H[2]] + floor + 1e-6:
            ctx.fail('trajectory_differs_from_reference', dict(case=brief, err_h=errs, extrapolated_err=e_x, swing=swing), sig=sig)
    if errs[H[2]] > errs[H[0]] * 1.05 + floor + 1e-6:
        ctx.fail('error_does_not_decrease_with_step', dict(case=brief, err_h={str(k): v for k, v in errs.items()}), sig=sig)
    # default settings
    rd = andes_smib(c, H[0], 1e-4)
    if rd is not None and rd['ok']:
        dref, _, _ = osmib.simulate(ref_case, rd['t'])
        e = float(np.max(np.abs(rd['delta'] - dref)))
        if e > max(fac * est, 1.2 * errs[H[0]]) + floor + 50 * 1e-4 * (1 + swing):
            ctx.fail('default_run_outside_error_bound', dict(case=brief, err=e, estimate=est), sig=sig)
    ctx.extra.setdefault('smib_errors', [])
    if len(ctx.extra['smib_errors']) < 20:
        ctx.extra['smib_errors'].append([c['method']] + [round(errs[h], 7) for h in H] + [round(swing, 4)])
    if swing > 0.05 and c['events']:
        ctx.nontrivial(brief, sample=dict(case=brief, errors={str(round(k, 5)): v for k, v in errs.items()}, swing=swing))


def camp_smib(ctx):
    def body(c):
        ctx.evaluated()
        smib_case(ctx, c)
    drive(ctx, smib_cases(), body, 6 if ctx.tier == 'quick' else 200, name='smib', chunk=6, budget_s=160 if ctx.tier == 'quick' else 1500,
          shrink_budget_s=30)


# ---- (b) small-signal ------------------------------------------------------------------------------------------------

SS_CASES = ['kundur/kundur_full.xlsx', 'ieee14/ieee14_full.xlsx', 'kundur/kundur_sexs.xlsx', 'kundur/kundur_ieeest.xlsx',
            '5bus/pjm5bus.xlsx', 'kundur/kundur_ieeeg1.xlsx']


@st.composite
def ss_cases(draw):
    c = dict(path=draw(st.sampled_from(SS_CASES)), line=draw(st.integers(0, 40)), dur=draw(st.sampled_from([0.005, 0.01, 0.02])),
             method=draw(st.sampled_from(['trapezoid', 'backeuler'])))
    if draw(st.booleans()):
        # a perturbation along a drawn direction of the state space (weights cycled over the differential states), applied
        # between two segments of a run that has been at rest for 0.1 s
        c.update(kick='state', dir=draw(st.lists(st.integers(-3, 3), min_size=8, max_size=40).filter(lambda w: any(w))),
                 eps=draw(st.sampled_from([1e-4, 3e-4, 1e-3])))
    return c


def ss_run(c, tstep):
    path = os.path.join(build.cases_root(), c['path'])
    rc = {'PFlow': dict(report=0), 'TDS': dict(no_tqdm=1, tf=1.5, tstep=tstep, tol=1e-8, honest=1, method=c['method'], criteria=0)}
    ss = build.load_case(path, rc=rc, setup=False)
    for m in ('Toggle', 'Fault', 'Alter'):
        if ss.models[m].n:
            ss.models[m].u.v = [0 for _ in ss.models[m].u.v]
    lidx = list(ss.Line.idx.v)
    dev = lidx[c['line'] % len(lidx)]
    state_kick = c.get('kick') == 'state'
    if not state_kick:
        ss.add('Toggle', dict(idx='K0', model='Line', dev=dev, t=0.1))
        ss.add('Toggle', dict(idx='K1', model='Line', dev=dev, t=round(0.1 + c['dur'], 4)))
    ss.setup()
    if not ss.PFlow.run():
        return None
    ss.TDS.init()
    if not ss.TDS.test_ok:
        return None
    from kvxopt import matrix
    J = {k: np.array(matrix(getattr(ss.dae, k))) for k in ('fx', 'fy', 'gx', 'gy')}
    T = np.array(ss.dae.Tf, dtype=float)
    x_eq = ss.dae.x.copy()
    flags0 = np.array(ss.get_z(ss.exist.pflow_tds)).copy() if ss.TDS.config.store_z else None
    mon = sim.Monitor(ss)
    mon.want_rowsum = True      # also records the anti-windup pegged states at every stored step

    def flags():
        out = []
        for mdl in ss.exist.pflow_tds.values():
            if mdl.n == 0:
                continue
            for d in mdl.discrete.values():
                for fl in ('zl', 'zu', 'zlr', 'zur'):
                    if fl in d.export_flags:
                        out.append(np.asarray(getattr(d, fl), dtype=float).ravel())
        return np.concatenate(out) if out else np.zeros(0)
    mon.watch['flags'] = flags
    mon.attach()
    if state_kick:
        ss.TDS.config.tf = 0.1
        ok = ss.TDS.run()
        dae = ss.dae
        n = dae.n
        dyn = np.where(T != 0)[0]
        zer = np.where(T == 0)[0]
        w = np.array([c['dir'][i % len(c['dir'])] for i in range(len(dyn))], dtype=float)
        if not w.any():
            w[0] = 1.0
        dx = c['eps'] * w / np.max(np.abs(w)) * np.maximum(np.abs(x_eq[dyn]), 0.05)
        # algebraic variables (and zero-time-constant states) moved consistently to first order; Newton does the rest
        A = np.block([[J['fx'], J['fy']], [J['gx'], J['gy']]])
        alg = np.concatenate([zer, np.arange(n, n + dae.m)]).astype(int)
        dz = -np.linalg.solve(A[np.ix_(alg, alg)], A[np.ix_(alg, dyn)] @ dx)
        dae.x[dyn] += dx
        dae.x[zer] += dz[:len(zer)]
        dae.y[:] += dz[len(zer):]
        ss.TDS.fg_update(ss.exist.pflow_tds)     # the integrator takes the derivative at the start of a step from dae.f
        ss.TDS.config.tf = 1.5
        ok = ok and ss.TDS.run()
    else:
        ok = ss.TDS.run()
    return dict(ok=bool(ok), J=J, T=T, x_eq=x_eq, t=np.array([r['t'] for r in mon.stored]), x=np.array([r['x'] for r in mon.stored]),
                names=list(ss.dae.x_name),
                limiter_activity=any(len(r.get('pegged', [])) for r in mon.stored) or
                any(len(r['watch']['flags']) == len(mon.stored[0]['watch']['flags']) and np.any(r['watch']['flags'] != mon.stored[0]['watch']['flags'])
                    for r in mon.stored))


def ss_case(ctx, c):
    from scipy.linalg import expm
    r1 = ss_run(c, 1 / 120)
    r2 = ss_run(c, 1 / 240)
    if r1 is None or r2 is None or not (r1['ok'] and r2['ok']):
        ctx.count('ss:run_failed')
        return
    if r1['limiter_activity'] or r2['limiter_activity']:
        ctx.count('ss:limiter_active_not_judged')
        return
    T = r1['T']
    dyn = np.where(T != 0)[0]
    n, m = len(T), r1['J']['gy'].shape[0]
    A = np.block([[r1['J']['fx'], r1['J']['fy']], [r1['J']['gx'], r1['J']['gy']]])
    alg = np.concatenate([np.where(T == 0)[0], np.arange(n, n + m)]).astype(int)
    A22 = A[np.ix_(alg, alg)]
    if np.linalg.cond(A22) > 1e13:
        ctx.count('ss:singular_algebraic_block')
        return
    As = np.diag(1 / T[dyn]) @ (A[np.ix_(dyn, dyn)] - A[np.ix_(dyn, alg)] @ np.linalg.solve(A22, A[np.ix_(alg, dyn)]))
    t = r1['t']
    if c.get('kick') == 'state':
        ctx.count('ss:kick=state_direction')
        k1 = int(np.argmax(t > 0.1 + 1.5 / 120))      # two steps after the perturbation
    else:
        ctx.count('ss:kick=line_trip')
        t1 = round(0.1 + c['dur'], 4) + 1e-4
        k1 = int(np.argmin(np.abs(t - t1)))
    x1 = r1['x'][k1][dyn] - r1['x_eq'][dyn]
    exc = float(np.max(np.abs(r1['x'][:, dyn] - r1['x_eq'][dyn])))
    if exc < 1e-3:
        ctx.count('ss:kick_too_small')
        return
    if exc > 0.1:
        ctx.count('ss:too_nonlinear')
        return
    worst = 0.0
    wi = 0
    x2i = np.array([np.interp(t, r2['t'], r2['x'][:, j]) for j in dyn]).T
    est = np.max(np.abs(r1['x'][:, dyn] - x2i), axis=0)
    for k in range(k1, len(t), max(1, (len(t) - k1) // 25)):
        xl = expm(As * (t[k] - t[k1])) @ x1
        d = np.abs((r1['x'][k][dyn] - r1['x_eq'][dyn]) - xl) - 2 * est - 50 * 1e-8
        j = int(np.argmax(d))
        if d[j] > worst:
            worst, wi = float(d[j]), j
    ctx.count('ss:judged')
    if worst > 0.05 * exc:
        ctx.fail('response_differs_from_linearisation', dict(case=c, excursion=exc, deviation_beyond_allowance=worst, state=r1['names'][dyn[wi]]),
                 sig=dict(method=c['method']))
    ctx.nontrivial(c, sample=dict(case=c, excursion=exc, worst_over_excursion=worst / exc))


def camp_ss(ctx):
    def body(c):
        ctx.evaluated()
        ss_case(ctx, c)
    drive(ctx, ss_cases(), body, 2 if ctx.tier == 'quick' else 40, name='smallsignal', shrink=False, budget_s=160 if ctx.tier == 'quick' else 1500)


CAMPAIGNS = {
    'smib': dict(fn=camp_smib, shards=dict(quick=10, thorough=16)),
    'smallsignal': dict(fn=camp_ss, shards=dict(quick=6, thorough=12)),
}


def replay(ctx, rec):
    c = rec['case']
    if 'xd1' in c:
        smib_case(ctx, c)
    else:
        ss_case(ctx, c)
