"""C14 - resumed and snapshot-restored simulations equal the uninterrupted run."""
import os
import subprocess
import sys

import numpy as np
from hypothesis import strategies as st

from .. import build, sim, sandbox
from ..runner import drive
from . import c06

RULE = ("Base case x generated mild event schedule x generated interruption history: 1..3 interruption times drawn "
        "from classes (on grid, off grid, exactly at / 1e-4 before / 1e-4 after an event) each handled by 'extend tf "
        "and run again', 'snapshot -> load in this process -> continue' or 'snapshot -> load in a fresh process -> "
        "continue'. The base case may carry a device whose equations use the value of the simulation time (ShuntTD). Twins: one uninterrupted run, and the same with half the step (discretisation estimate). Oracle: "
        "event firings identical as multisets (nothing lost or repeated across a boundary), strictly increasing time "
        "axis containing every boundary and tf, split trajectory within 2*|x_h - x_h/2| + 50*tol of the single run at "
        "tf, snapshot-restored continuation bitwise equal to the in-process continuation, and reset()+PFlow.run() "
        "reproducing the first power-flow solution. Non-trivial = history with >= 1 interruption within 1e-4 of an "
        "event or off the step grid, and >= 1 enabled in-range event; distinct by the case JSON.")
ASSUMPTIONS = [
    "Extra stamps at the interruption times change the discretisation, nothing else; the allowance is twice the step-halving estimate plus 50*tol.",
    "Monitor wrappers are detached before pickling and re-attached after loading.",
]

BASES = ['kundur/kundur_full.xlsx', 'ieee14/ieee14_full.xlsx', '5bus/pjm5bus.xlsx']


@st.composite
def histories(draw):
    base = draw(st.sampled_from(BASES))
    tf = draw(st.sampled_from([0.6, 1.0, 1.6]))
    tstep = draw(st.sampled_from([1 / 30, 1 / 60]))
    ev = []
    for _ in range(draw(st.integers(1, 3))):
        kind = draw(st.sampled_from(['toggle_line', 'toggle_pq', 'alter']))
        t = float(round(draw(st.floats(0.05, tf - 0.2)), 4))
        e = dict(kind=kind, t=t, cls='offgrid', u=1, sel=draw(st.integers(0, 60)))
        if kind == 'alter':
            e.update(target=draw(st.sampled_from(['line_x', 'pq_p0'])), method=draw(st.sampled_from(['*', '+'])),
                     amount=draw(st.sampled_from([1.1, 0.01])))
        ev.append(e)
        if kind == 'toggle_line':
            e2 = dict(e)
            e2['t'] = float(round(t + draw(st.sampled_from([0.05, 0.1])), 4))
            ev.append(e2)
    times = sorted(set(e['t'] for e in ev))
    cuts = []
    for _ in range(draw(st.integers(1, 3))):
        cls = draw(st.sampled_from(['grid', 'offgrid', 'at_event', 'before_event', 'after_event']))
        if cls == 'grid':
            t = float(draw(st.integers(1, int(tf / tstep) - 1)) * tstep)
        elif cls == 'offgrid':
            t = float(round(draw(st.floats(0.03, tf - 0.03)), 4))
        else:
            te = draw(st.sampled_from(times))
            t = te + {'at_event': 0.0, 'before_event': -1e-4, 'after_event': 1e-4}[cls]
        if 0 < t < tf:
            cuts.append(dict(t=float(t), cls=cls, how=draw(st.sampled_from(['resume', 'resume', 'snapshot', 'snapshot', 'fresh']))))
    cuts = sorted({c['t']: c for c in cuts}.values(), key=lambda c: c['t'])
    # a device whose equations use the value of the simulation time (instantaneous phase voltages of a shunt)
    extra = draw(st.sampled_from([None, None, dict(model='ShuntTD', sel=draw(st.integers(0, 30)))]))
    return dict(base=base, tf=tf, tstep=tstep, events=ev, cuts=cuts, extra=extra)


def prepare(c, tstep=None, tf=None):
    path = os.path.join(build.cases_root(), c['base'])
    rc = {'PFlow': dict(report=0), 'TDS': dict(no_tqdm=1, tf=tf if tf is not None else c['tf'], tstep=tstep or c['tstep'], criteria=0)}
    ss = build.load_case(path, rc=rc, setup=False)
    recs = c06.materialise(ss, dict(events=c['events']))
    if c.get('extra'):
        k = c['extra']['sel'] % ss.Bus.n
        ss.add('ShuntTD', dict(idx='VTD', bus=ss.Bus.idx.v[k], Vn=ss.Bus.Vn.v[k], Sn=100.0, g=0.0, b=0.02))
    ss.setup()
    if not ss.PFlow.run():
        return None
    return ss


def firing_multiset(mon_list):
    out = {}
    for mon in mon_list:
        for f in mon.firings:
            for idx in f['idx']:
                key = '%s|%s|%s|%r' % (f['model'], f['timer'], idx, f['t'])
                out[key] = out.get(key, 0) + 1
    return out


_FRESH = r'''
import sys, os
sys.path.insert(0, %r)
sys.path.insert(0, %r)
import numpy as np
import andes
andes.main.config_logger(stream_level=50, file=False)
from andes.utils.snapshot import load_ss
ss = load_ss(%r)
ss.TDS.config.tf = %r
ok = ss.TDS.run()
np.savez(%r, x=ss.dae.x, y=ss.dae.y, t=np.array(ss.dae.ts.t), ok=np.array(bool(ok)))
'''


def history_case(ctx, c):
    from andes.utils.snapshot import load_ss, save_ss
    brief = dict(base=c['base'], tf=c['tf'], tstep=c['tstep'], cuts=c['cuts'], extra=c.get('extra'),
                 events=[{k: e[k] for k in ('kind', 't', 'sel') if k in e} for e in c['events']])
    # ---- uninterrupted twins ---------------------------------------------------------------------------------
    single = prepare(c)
    if single is None:
        ctx.count('skip:pflow_failed')
        return
    mon_single = sim.Monitor(single, keep_vectors=False).attach()
    ok_single = single.TDS.run()
    half = prepare(c, tstep=c['tstep'] / 2)
    ok_half = half.TDS.run()
    if not (ok_single and ok_half):
        ctx.count('skip:single_run_failed')
        return
    tol = single.TDS.config.tol
    if len(single.dae.x) == 0:
        return
    est = np.abs(single.dae.x - half.dae.x)
    est_y = np.abs(single.dae.y - half.dae.y)
    # ---- interrupted run ---------------------------------------------------------------------------------------------
    ss = prepare(c, tf=c['cuts'][0]['t'] if c['cuts'] else c['tf'])
    mons = [sim.Monitor(ss, keep_vectors=False).attach()]
    scratch = sandbox.scratch_dir('c14')
    bounds = [cut['t'] for cut in c['cuts']] + [c['tf']]
    ok = True
    for k, b in enumerate(bounds):
        ss.TDS.config.tf = b
        try:
            ok = ss.TDS.run()
        except Exception as e:
            ctx.fail('resumed_run_raised', dict(history=brief, segment_end=b, error='%s: %s' % (type(e).__name__, str(e)[:200])),
                     sig=dict(error=type(e).__name__))
            return
        if not ok:
            break
        if k < len(c['cuts']):
            how = c['cuts'][k]['how']
            ctx.count('cut:' + how)
            ctx.count('cut_class:' + c['cuts'][k]['cls'])
            if how in ('snapshot', 'fresh'):
                mons[-1].detach()
                pkl = os.path.join(scratch, 'snap-%d-%d.pkl' % (os.getpid(), k))
                try:
                    save_ss(pkl, ss)
                except Exception as e:
                    ctx.fail('snapshot_save_raised', dict(history=brief, error='%s: %s' % (type(e).__name__, str(e)[:200])),
                             sig=dict(error=type(e).__name__))
                    return
                next_b = bounds[k + 1]
                if how == 'fresh':
                    out = os.path.join(scratch, 'fresh-%d-%d.npz' % (os.getpid(), k))
                    env = dict(os.environ, PYTHONHASHSEED=str(7 + k))
                    r = subprocess.run([sandbox.PY, '-c', _FRESH % (sandbox.REPO, sandbox.VERIF, pkl, next_b, out)], env=env,
                                       stdout=subprocess.PIPE, stderr=subprocess.STDOUT, text=True, cwd=scratch)
                    if r.returncode != 0 or not os.path.isfile(out):
                        ctx.fail('snapshot_load_in_fresh_process_failed', dict(history=brief, output=r.stdout[-600:]), sig=dict())
                        return
                    fresh = np.load(out)
                    os.remove(out)
                # in-process restore
                try:
                    ss2 = load_ss(pkl)
                except Exception as e:
                    ctx.fail('snapshot_load_raised', dict(history=brief, error='%s: %s' % (type(e).__name__, str(e)[:200])),
                             sig=dict(error=type(e).__name__))
                    return
                finally:
                    if os.path.isfile(pkl):
                        os.remove(pkl)
                # reference: the original object continues in-process over the same segment
                mons.append(sim.Monitor(ss, keep_vectors=False).attach())
                ss.TDS.config.tf = next_b
                ok_a = ss.TDS.run()
                ss2.TDS.config.tf = next_b
                ok_b = ss2.TDS.run()
                if bool(ok_a) != bool(ok_b) or not np.array_equal(ss.dae.x, ss2.dae.x) or not np.array_equal(ss.dae.y, ss2.dae.y):
                    d = float(np.max(np.abs(ss.dae.x - ss2.dae.x))) if len(ss.dae.x) == len(ss2.dae.x) else -1.0
                    ctx.fail('snapshot_continuation_differs', dict(history=brief, cut=c['cuts'][k], max_dx=d, ok=[bool(ok_a), bool(ok_b)]),
                             sig=dict(how='in_process'))
                if how == 'fresh':
                    if bool(fresh['ok']) != bool(ok_a) or not np.array_equal(fresh['x'], ss.dae.x):
                        d = float(np.max(np.abs(fresh['x'] - ss.dae.x))) if len(fresh['x']) == len(ss.dae.x) else -1.0
                        ctx.fail('snapshot_continuation_differs', dict(history=brief, cut=c['cuts'][k], max_dx=d), sig=dict(how='fresh_process'))
                ok = ok_a
                # the segment [b, next_b] has been simulated already; continue with the following boundary
                bounds[k + 1] = next_b
    if not ok:
        ctx.fail('split_run_fails_where_single_run_completes', dict(history=brief, reached=float(ss.dae.t)), sig=dict())
        return
    # ---- comparisons --------------------------------------------------------------------------------------------------
    ts = np.array(ss.dae.ts.t, dtype=float)
    if np.any(np.diff(ts) <= 0):
        k = int(np.argmax(np.diff(ts) <= 0))
        ctx.fail('time_axis_not_strictly_increasing', dict(history=brief, at=[float(ts[k]), float(ts[k + 1])]), sig=dict())
    for b in [cut['t'] for cut in c['cuts']] + [c['tf']]:
        if b not in ts:
            ctx.fail('boundary_missing_from_time_axis', dict(history=brief, boundary=b), sig=dict())
    f_single = firing_multiset([mon_single])
    f_split = firing_multiset(mons)
    if f_single != f_split:
        lost = {k: v for k, v in f_single.items() if f_split.get(k, 0) < v}
        extra = {k: v for k, v in f_split.items() if f_single.get(k, 0) < v}
        ctx.fail('events_lost_or_repeated_across_boundary', dict(history=brief, lost=lost, repeated=extra),
                 sig=dict(lost=bool(lost), repeated=bool(extra)))
    d = np.abs(ss.dae.x - single.dae.x)
    allow = 2 * est + 50 * tol * (1 + np.abs(single.dae.x))
    if np.any(d > allow):
        i = int(np.argmax(d - allow))
        ctx.fail('split_trajectory_differs_from_single_run', dict(history=brief, state=single.dae.x_name[i], split=float(ss.dae.x[i]),
                                                                  single=float(single.dae.x[i]), allowance=float(allow[i])), sig=dict())
    dy = np.abs(ss.dae.y - single.dae.y)
    allow_y = 2 * est_y + 50 * tol * (1 + np.abs(single.dae.y))
    if np.any(dy > allow_y):
        i = int(np.argmax(dy - allow_y))
        ctx.fail('split_trajectory_differs_from_single_run', dict(history=brief, variable=single.dae.y_name[i], split=float(ss.dae.y[i]),
                                                                  single=float(single.dae.y[i]), allowance=float(allow_y[i])),
                 sig=dict(algebraic=True))
    if c.get('extra'):
        ctx.count('extra:time_valued_device')
    near = any(cut['cls'] in ('at_event', 'before_event', 'after_event', 'offgrid') for cut in c['cuts'])
    if near and c['cuts'] and f_single:
        ctx.nontrivial(brief, sample=dict(history=brief, stamps=len(ts), firings=sum(f_split.values()),
                                          max_diff=float(d.max()), estimate=float(est.max())))


def camp_hist(ctx):
    def body(c):
        ctx.evaluated()
        history_case(ctx, c)
    quick = ctx.tier == 'quick'
    if ctx.shard < 2:
        # anchor: a device whose equations use the value of the simulation time, interrupted off the grid (resume / snapshot)
        c = dict(base=BASES[ctx.shard % len(BASES)], tf=1.0, tstep=1 / 30,
                 events=[dict(kind='toggle_line', t=0.3123, cls='offgrid', u=1, sel=3), dict(kind='toggle_line', t=0.4123, cls='offgrid', u=1, sel=3)],
                 cuts=[dict(t=0.4321, cls='offgrid', how='resume' if ctx.shard == 0 else 'snapshot')], extra=dict(model='ShuntTD', sel=6))
        ctx.current_case = c
        ctx.count('anchor:time_valued_device')
        body(c)
    drive(ctx, histories(), body, 3 if quick else 80, name='resume', chunk=3, shrink=False, budget_s=170 if quick else 1500)


def camp_reset(ctx):
    """reset() and a second power flow reproduce the first solution."""
    paths = [p for p in build.stock_cases(('.xlsx', '.json')) if os.path.getsize(p) < 150000][ctx.shard::ctx.nshards]
    for path in paths[: (6 if ctx.tier == 'quick' else 1000)]:
        try:
            ss = build.load_case(path, rc={'PFlow': dict(report=0)})
        except Exception:
            continue
        if ss is None or not ss.is_setup:
            continue
        try:
            if not ss.PFlow.run():
                continue
        except Exception:
            continue
        ctx.evaluated()
        ctx.current_case = dict(reset=os.path.relpath(path, build.cases_root()))
        v1, a1 = ss.Bus.v.v.copy(), ss.Bus.a.v.copy()
        ss.reset()
        ok = ss.PFlow.run()
        if not ok or np.max(np.abs(ss.Bus.v.v - v1)) > 1e-12 or np.max(np.abs(ss.Bus.a.v - a1)) > 1e-12:
            ctx.fail('reset_does_not_reproduce_power_flow', dict(case=ctx.current_case, ok=bool(ok),
                                                                 dv=float(np.max(np.abs(ss.Bus.v.v - v1)))), sig=dict())
        ctx.count('reset:cases')
        ctx.nontrivial(ctx.current_case)


CAMPAIGNS = {
    'resume': dict(fn=camp_hist, shards=dict(quick=14, thorough=16)),
    'reset': dict(fn=camp_reset, shards=dict(quick=2, thorough=4)),
}


def replay(ctx, rec):
    history_case(ctx, rec['case'])
