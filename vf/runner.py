"""Campaign runner: tiers, seeding, sharding, evidence, VIOLATION / KNOWN-FINDING lines."""
import hashlib
import importlib
import json
import os
import subprocess
import sys
import time
import traceback

from . import sandbox
from .findings import load_findings, match_finding

VERIF = sandbox.VERIF
# VERIF_OUT redirects what a run writes (evidence, v-*.json) - used by the sensitivity tooling so that runs against
# scratch trees never overwrite the evidence of the real tree; committed r-*.json replays are always read from REPLAYS
OUT = os.environ.get('VERIF_OUT') or VERIF
EVID = os.path.join(OUT, 'evidence')
VOUT = os.path.join(OUT, 'replays')
REPLAYS = os.path.join(VERIF, 'replays')


class Violation(Exception):
    def __init__(self, clause, detail=None, sig=None):
        super().__init__('%s: %s' % (clause, json.dumps(detail, default=str)[:600]))
        self.clause = clause
        self.detail = detail
        self.sig = sig or {}


class HarnessError(Exception):
    pass


def canon(obj):
    return json.dumps(obj, sort_keys=True, default=_default, separators=(',', ':'))


def _default(o):
    try:
        import numpy as np
        if isinstance(o, np.generic):
            return o.item()
        if isinstance(o, np.ndarray):
            return o.tolist()
    except Exception:
        pass
    if isinstance(o, complex):
        return [o.real, o.imag]
    if isinstance(o, (set, frozenset)):
        return sorted(o, key=str)
    return str(o)


def sha(obj):
    return hashlib.sha1(canon(obj).encode()).hexdigest()


def subseed(*parts):
    return int(hashlib.sha1('/'.join(str(p) for p in parts).encode()).hexdigest()[:12], 16)


class Ctx:
    """Per-process accumulator; merged by the parent."""

    MAX_SAMPLES = 6

    def __init__(self, prop, tier, seed, campaign='main', shard=0, nshards=1):
        self.prop, self.tier, self.seed = prop, tier, seed
        self.campaign, self.shard, self.nshards = campaign, shard, nshards
        self.evaluations = 0
        self.classes = {}
        self.nontrivial_hashes = set()
        self.samples = []
        self.violations = []      # dicts
        self.known_hits = {}      # finding id -> count
        self.notes = []
        self.current_case = None
        self.findings = load_findings(prop)
        self.t0 = time.time()
        self.extra = {}

    # -- counting -----------------------------------------------------------
    def count(self, label, n=1):
        self.classes[label] = self.classes.get(label, 0) + n

    def evaluated(self, n=1):
        self.evaluations += n

    def nontrivial(self, case, sample=None):
        h = sha(case)
        if h not in self.nontrivial_hashes:
            self.nontrivial_hashes.add(h)
            if len(self.samples) < self.MAX_SAMPLES:
                self.samples.append(sample if sample is not None else case)

    def note(self, text):
        if text not in self.notes and len(self.notes) < 50:
            self.notes.append(text)

    # -- verdicts -----------------------------------------------------------
    def fail(self, clause, detail=None, sig=None, case=None):
        """Report a property violation. Known findings are counted, not raised."""
        sig = dict(sig or {})
        sig.setdefault('clause', clause)
        f = match_finding(self.findings, sig)
        if f is not None:
            self.known_hits[f['id']] = self.known_hits.get(f['id'], 0) + 1
            self.count('known:' + f['id'])
            return False
        raise Violation(clause, detail, sig)

    def record_violation(self, v, case, shrunk=True):
        rec = dict(property=self.prop, clause=v.clause, signature=v.sig, detail=v.detail,
                   campaign=self.campaign, seed=self.seed, tier=self.tier, shrunk=shrunk, case=case)
        self.violations.append(rec)

    def to_json(self):
        return dict(prop=self.prop, campaign=self.campaign, shard=self.shard,
                    evaluations=self.evaluations, classes=self.classes,
                    nontrivial=sorted(self.nontrivial_hashes), samples=self.samples,
                    violations=self.violations, known_hits=self.known_hits, notes=self.notes,
                    extra=self.extra, wall=time.time() - self.t0)


# ---------------------------------------------------------------------------
# Hypothesis driver
# ---------------------------------------------------------------------------

def drive(ctx, strategy, body, n, name='main', chunk=None, budget_s=None, shrink=True,
          shrink_budget_s=None):
    """Run ``body(case)`` on ``n`` cases drawn from ``strategy``.

    ``body`` raises :class:`Violation` (through ``ctx.fail``) when the property is
    broken.  The shrunk failing case is recorded in ``ctx.violations``.
    Cases are drawn in chunks so a wall-clock budget can stop the campaign
    between chunks (the run is then shorter, never a failure).
    Returns the number of cases executed.
    """
    import hypothesis
    from hypothesis import HealthCheck, Phase, given, settings

    chunk = chunk or max(1, min(n, 50))
    if shrink_budget_s is None:
        shrink_budget_s = 45 if ctx.tier == 'quick' else 240
    done = 0
    k = 0
    t0 = time.time()
    last = {}

    phases = [Phase.generate, Phase.target]
    if shrink:
        phases.append(Phase.shrink)

    while done < n:
        if budget_s is not None and time.time() - t0 > budget_s:
            ctx.note('campaign %s stopped by wall-clock budget after %d of %d cases' % (name, done, n))
            ctx.count('budget_stop:' + name)
            break
        m = min(chunk, n - done)
        sd = subseed(ctx.seed, ctx.prop, ctx.campaign, name, ctx.shard, k)
        executed = [0]

        @hypothesis.seed(sd)
        @settings(max_examples=m, database=None, deadline=None, derandomize=False,
                  report_multiple_bugs=False, phases=phases, print_blob=False,
                  suppress_health_check=list(HealthCheck))
        @given(strategy)
        def test(case):
            # own cap on the shrink phase: once the budget is spent, every candidate other than the
            # current best failing case passes trivially, so Hypothesis stops and replays that best case
            if 'error' in last:
                return          # a harness error was recorded: finish this chunk without work
            if 'fail_t' in last and time.time() - last['fail_t'] > shrink_budget_s:
                if canon(case) != last['fail_canon']:
                    return
            executed[0] += 1
            last['case'] = case
            ctx.current_case = case
            try:
                body(case)
            except Violation:
                last.setdefault('fail_t', time.time())
                last['fail_canon'] = canon(case)
                raise
            except Exception as e:      # harness error: never shrunk, never a verdict
                if 'fail_t' in last:
                    return              # while shrinking a violation: candidate simply does not count
                last['error'] = ''.join(traceback.format_exception(type(e), e, e.__traceback__))[-3000:]
                last['error_case'] = case
                return

        try:
            test()
        except Violation as v:
            ctx.record_violation(v, last.get('case'), shrunk=shrink)
            done += executed[0]
            return done
        except hypothesis.errors.Unsatisfiable:
            ctx.note('campaign %s: strategy unsatisfiable in chunk %d' % (name, k))
        if 'error' in last:
            ctx.current_case = last.get('error_case')
            raise HarnessError('exception in property body (campaign %s): %s\ncase: %s'
                               % (name, last['error'], canon(last.get('error_case'))[:1500]))
        done += m
        k += 1
    return done


def drive_machine(ctx, machine_cls, n, steps, name='machine', budget_s=None, shrink=True):
    """Run a RuleBasedStateMachine ``n`` times; the machine reports through ctx.fail."""
    import hypothesis
    from hypothesis import HealthCheck, Phase, settings
    from hypothesis.stateful import run_state_machine_as_test

    phases = [Phase.generate, Phase.target] + ([Phase.shrink] if shrink else [])
    t0 = time.time()
    done, k, chunk = 0, 0, max(1, min(n, 25))
    while done < n:
        if budget_s is not None and time.time() - t0 > budget_s:
            ctx.note('machine %s stopped by wall-clock budget after %d of %d runs' % (name, done, n))
            break
        m = min(chunk, n - done)
        sd = subseed(ctx.seed, ctx.prop, ctx.campaign, name, ctx.shard, k)
        st = settings(max_examples=m, stateful_step_count=steps, database=None, deadline=None,
                      derandomize=False, report_multiple_bugs=False, phases=phases, print_blob=False,
                      suppress_health_check=list(HealthCheck))
        try:
            run_state_machine_as_test(hypothesis.seed(sd)(machine_cls), settings=st)
        except Violation as v:
            ctx.record_violation(v, getattr(machine_cls, 'last_history', None), shrunk=shrink)
            return done
        done += m
        k += 1
    return done


# ---------------------------------------------------------------------------
# sharded execution
# ---------------------------------------------------------------------------

def worker_main(argv):
    """python -m vf.runner worker <prop> <campaign> <shard> <nshards> <tier> <seed> <out>"""
    prop, campaign, shard, nshards, tier, seed, out = argv
    shard, nshards, seed = int(shard), int(nshards), int(seed)
    ctx = Ctx(prop, tier, seed, campaign, shard, nshards)
    status = 'ok'
    err = None
    try:
        sandbox.worker_home('%s-%s-%d' % (prop, campaign, shard))
        mod = importlib.import_module('vf.props.' + prop.lower())
        if campaign == 'regress':
            regress(ctx, mod)
        else:
            fn = mod.CAMPAIGNS[campaign]['fn']
            fn(ctx)
    except Violation as v:   # raised outside drive(): single un-shrunk case
        ctx.record_violation(v, ctx.current_case, shrunk=False)
    except BaseException as e:   # harness error
        status = 'error'
        err = ''.join(traceback.format_exception(type(e), e, e.__traceback__))[-6000:]
    d = ctx.to_json()
    d['status'] = status
    d['error'] = err
    tmp = out + '.tmp'
    with open(tmp, 'w') as fh:
        json.dump(d, fh, default=_default)
    os.replace(tmp, out)
    return 0


def committed_replays(prop):
    d = os.path.join(REPLAYS, prop)
    if not os.path.isdir(d):
        return []
    return sorted(os.path.join(d, f) for f in os.listdir(d) if f.startswith('r-') and f.endswith('.json'))


def regress(ctx, mod):
    """Replay tier: every committed replay (shrunk past failures, finding witnesses) through the
    same predicate, bypassing Hypothesis."""
    for path in committed_replays(ctx.prop):
        rec = json.load(open(path))
        ctx.count('regress:replayed')
        ctx.current_case = rec.get('case')
        try:
            mod.replay(ctx, rec)
        except Violation as v:
            ctx.record_violation(v, rec.get('case'), shrunk=True)
            ctx.violations[-1]['replay_of'] = os.path.basename(path)


def run_check(prop, tier, seed):
    t0 = time.time()
    sandbox.cleanup_stale_homes()
    sandbox.ensure_pycode()
    d = os.path.join(VOUT, prop)
    if os.path.isdir(d):      # violation files of earlier runs (not the committed r-*.json replays)
        for f in os.listdir(d):
            if f.startswith('v-'):
                os.remove(os.path.join(d, f))
    mod = importlib.import_module('vf.props.' + prop.lower())
    outdir = os.path.join(sandbox.WORK, 'out-%s-%d' % (prop, os.getpid()))
    os.makedirs(outdir, exist_ok=True)
    jobs = []
    if committed_replays(prop):
        jobs.append(('regress', 0, 1))
    for cname, c in mod.CAMPAIGNS.items():
        if tier not in c.get('tiers', ('quick', 'thorough')):
            continue
        ns = c.get('shards', {}).get(tier, 1)
        for s in range(ns):
            jobs.append((cname, s, ns))
    maxpar = int(os.environ.get('VERIF_JOBS', '16'))
    procs, results, pending = [], [], list(jobs)
    env = dict(os.environ)
    env['PYTHONHASHSEED'] = '0'

    def launch(job):
        cname, s, ns = job
        out = os.path.join(outdir, '%s-%d.json' % (cname, s))
        logf = open(out + '.log', 'w')
        p = subprocess.Popen([sandbox.PY, '-m', 'vf.runner', 'worker', prop, cname, str(s), str(ns),
                              tier, str(seed), out], env=env, cwd=VERIF, stdout=logf, stderr=subprocess.STDOUT)
        return (p, job, out, logf)

    while pending or procs:
        while pending and len(procs) < maxpar:
            procs.append(launch(pending.pop(0)))
        time.sleep(0.05)
        for item in list(procs):
            p, job, out, logf = item
            if p.poll() is not None:
                procs.remove(item)
                logf.close()
                results.append((job, out, p.returncode))

    merged = merge(prop, tier, seed, mod, results, t0)
    import shutil
    shutil.rmtree(outdir, ignore_errors=True)
    return merged


def merge(prop, tier, seed, mod, results, t0):
    evaluations = 0
    classes, known_hits = {}, {}
    nontrivial = set()
    samples, violations, notes, errors = [], [], [], []
    percamp = {}
    extra = {}
    for (cname, s, ns), out, rc in sorted(results):
        if not os.path.isfile(out):
            tail = ''
            try:
                tail = open(out + '.log').read()[-3000:]
            except Exception:
                pass
            handler = getattr(mod, 'on_worker_death', None)
            if handler is not None:
                v = handler(cname, s, rc, out)
                if v is not None:
                    violations.append(v)
                    continue
            errors.append('worker %s/%d died rc=%s without result\n%s' % (cname, s, rc, tail))
            continue
        d = json.load(open(out))
        if d['status'] != 'ok':
            errors.append('worker %s/%d: %s' % (cname, s, d['error']))
        evaluations += d['evaluations']
        pc = percamp.setdefault(cname, dict(evaluations=0, nontrivial=0, wall_s=0.0))
        pc['evaluations'] += d['evaluations']
        pc['nontrivial'] += len(d['nontrivial'])
        pc['wall_s'] = round(max(pc['wall_s'], d['wall']), 1)
        for k, v in d['classes'].items():
            classes[k] = classes.get(k, 0) + v
        for k, v in d['known_hits'].items():
            known_hits[k] = known_hits.get(k, 0) + v
        nontrivial.update(d['nontrivial'])
        for smp in d['samples']:
            if len(samples) < 8:
                samples.append(dict(campaign=cname, case=smp))
        violations.extend(d['violations'])
        for n in d['notes']:
            if n not in notes:
                notes.append(n)
        for k, v in d.get('extra', {}).items():
            if isinstance(v, dict):
                e = extra.setdefault(k, {})
                for kk, vv in v.items():
                    if isinstance(vv, (int, float)) and not isinstance(vv, bool):
                        e[kk] = e.get(kk, 0) + vv
                    else:
                        e[kk] = vv
            elif isinstance(v, list):
                extra.setdefault(k, [])
                for it in v:
                    if it not in extra[k] and len(extra[k]) < 200:
                        extra[k].append(it)
            else:
                extra[k] = v

    findings = load_findings(prop)
    lines = []
    for f in findings:
        if f.get('status') == 'known' and known_hits.get(f['id'], 0) > 0:
            lines.append('KNOWN-FINDING: property=%s %s [%s, %d hits]' % (prop, f['what'], f['id'], known_hits[f['id']]))
    # a known finding that no longer reproduces is reported in evidence (not an alarm)
    not_reproduced = [f['id'] for f in findings if f.get('status') == 'known' and known_hits.get(f['id'], 0) == 0]

    vlines = []
    seen = set()
    os.makedirs(os.path.join(VOUT, prop), exist_ok=True)
    for v in violations:
        key = sha(dict(c=v.get('clause'), s=v.get('signature')))
        if key in seen:
            continue
        seen.add(key)
        path = os.path.join(VOUT, prop, 'v-%s.json' % sha(v)[:12])
        with open(path, 'w') as fh:
            json.dump(v, fh, indent=1, default=_default)
        vlines.append('VIOLATION property=%s replay=%s' % (prop, path))
        lines.append('  clause=%s detail=%s' % (v.get('clause'), canon(v.get('detail'))[:500]))

    coverage = dict(evaluations=evaluations, distinct_nontrivial=len(nontrivial),
                    rule=getattr(mod, 'RULE', ''), samples=samples, classes=dict(sorted(classes.items())),
                    campaigns=percamp, known_findings_hit=known_hits,
                    known_findings_not_reproduced=not_reproduced, notes=notes,
                    exhaustive=bool(getattr(mod, 'EXHAUSTIVE', False)))
    coverage.update(extra)
    ev = dict(property_id=prop, tier=tier, seed=seed, level=getattr(mod, 'LEVEL', 'exploration'),
              coverage=coverage, assumptions=list(getattr(mod, 'ASSUMPTIONS', [])),
              wall_s=round(time.time() - t0, 1), violations=len(vlines),
              harness_errors=errors[:5], tree=sandbox.tree_hash())
    os.makedirs(EVID, exist_ok=True)
    with open(os.path.join(EVID, prop + '.json'), 'w') as fh:
        json.dump(ev, fh, indent=1, default=_default)

    for ln in lines:
        print(ln)
    for ln in vlines:
        print(ln)
    print('%s %s seed=%d: %d cases, %d distinct non-trivial, %d violation(s), %d known-finding hit(s), %.0fs'
          % (prop, tier, seed, evaluations, len(nontrivial), len(vlines), sum(known_hits.values()), time.time() - t0))
    if vlines:
        return 1
    if errors:
        for e in errors[:3]:
            sys.stderr.write('HARNESS ERROR: %s\n' % e)
        return 2
    if evaluations < 1 or len(nontrivial) < 2:
        sys.stderr.write('HARNESS ERROR: too few non-trivial cases (%d/%d)\n' % (len(nontrivial), evaluations))
        return 2
    return 0


def run_replay(prop, path):
    sandbox.ensure_pycode()
    sandbox.worker_home('%s-replay' % prop)
    mod = importlib.import_module('vf.props.' + prop.lower())
    rec = json.load(open(path))
    ctx = Ctx(prop, 'quick', int(rec.get('seed', 1)), rec.get('campaign', 'replay'))
    ctx.findings = []    # a replay judges the case itself; nothing is suppressed
    try:
        mod.replay(ctx, rec)
    except Violation as v:
        print('VIOLATION property=%s replay=%s' % (prop, os.path.abspath(path)))
        print('  clause=%s detail=%s' % (v.clause, canon(v.detail)[:800]))
        return 1
    print('replay %s: property held' % path)
    return 0


if __name__ == '__main__':
    # run through the canonical module object (vf.runner), not the __main__ copy: exception classes
    # must be identical for the property modules and the driver
    from vf import runner as _canonical
    if sys.argv[1] == 'worker':
        sys.exit(_canonical.worker_main(sys.argv[2:]))
