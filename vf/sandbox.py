"""Private HOME + generated-code cache for the tree under test.

ANDES executes *generated* code from ``$HOME/.andes/pycode``.  Its staleness
test (md5 over equation strings) does not notice edits to the code generator
itself, so we key a full ``prepare`` on a hash of every source file under
``$VERIF_REPO/andes`` (default /repo) and give every worker process a private
HOME holding a copy of that directory (and no ``andes.rc``).
"""
import atexit
import fcntl
import hashlib
import os
import shutil
import subprocess
import sys
import time

VERIF = os.path.dirname(os.path.dirname(os.path.abspath(__file__)))
WORK = os.path.join(VERIF, '.work')
REPO = os.environ.get('VERIF_REPO', '/repo')
PY = os.environ.get('VERIF_PYTHON', '/venv/bin/python')


def tree_hash():
    h = hashlib.sha1()
    root = os.path.join(REPO, 'andes')
    for dp, dn, fn in sorted(os.walk(root)):
        dn.sort()
        if os.path.relpath(dp, root).split(os.sep)[0] in ('cases', '__pycache__'):
            continue
        if '__pycache__' in dp:
            continue
        for f in sorted(fn):
            if f.endswith(('.py', '.yaml')):
                p = os.path.join(dp, f)
                h.update(os.path.relpath(p, root).encode())
                with open(p, 'rb') as fh:
                    h.update(fh.read())
    return h.hexdigest()[:16]


def activate_repo():
    """Make ``import andes`` resolve to REPO (editable install already does for /repo)."""
    if REPO not in sys.path and os.path.abspath(REPO) != '/repo':
        sys.path.insert(0, REPO)
    elif os.path.abspath(REPO) == '/repo' and '/repo' not in sys.path:
        sys.path.insert(0, '/repo')


_PREP = r'''
import sys, os
sys.path.insert(0, %r)
import logging
import andes
andes.main.config_logger(stream_level=40, file=False)
ss = andes.System(no_undill=True, default_config=True, no_output=True)
ss.prepare(quick=True, ncpu=%d)
'''


def ensure_pycode(verbose=False):
    """Return the directory to be used as template HOME (contains .andes/pycode)."""
    os.makedirs(WORK, exist_ok=True)
    h = tree_hash()
    home = os.path.join(WORK, 'pc-' + h)
    done = os.path.join(home, '.done')
    if os.path.isfile(done):
        return home
    lock = open(os.path.join(WORK, 'pc.lock'), 'w')
    fcntl.flock(lock, fcntl.LOCK_EX)
    try:
        if os.path.isfile(done):
            return home
        # drop caches of other trees (disk hygiene)
        old = sorted((d for d in os.listdir(WORK) if d.startswith('pc-') and d != 'pc-' + h
                      and os.path.isdir(os.path.join(WORK, d))),
                     key=lambda d: os.path.getmtime(os.path.join(WORK, d)))
        for d in old[:-int(os.environ.get('VERIF_KEEP_PC', '2'))]:
            shutil.rmtree(os.path.join(WORK, d), ignore_errors=True)
        shutil.rmtree(home, ignore_errors=True)
        os.makedirs(os.path.join(home, '.andes'))
        env = dict(os.environ)
        env['HOME'] = home
        env['PYTHONHASHSEED'] = '0'
        t0 = time.time()
        ncpu = min(16, os.cpu_count() or 1)
        r = subprocess.run([PY, '-c', _PREP % (REPO, ncpu)], env=env, cwd=home,
                           stdout=subprocess.PIPE, stderr=subprocess.STDOUT, text=True)
        ok = r.returncode == 0 and os.path.isfile(os.path.join(home, '.andes', 'pycode', '__init__.py'))
        if not ok:
            sys.stderr.write(r.stdout[-4000:])
            raise RuntimeError('code generation for the tree under test failed (rc=%s)' % r.returncode)
        if verbose:
            print('pycode generated for tree %s in %.1fs' % (h, time.time() - t0))
        open(done, 'w').write(h)
        return home
    finally:
        fcntl.flock(lock, fcntl.LOCK_UN)
        lock.close()


_worker_home = None


def worker_home(tag='w'):
    """Create a private HOME for this process (copy of the pycode template). Idempotent."""
    global _worker_home
    if _worker_home is not None:
        return _worker_home
    tmpl = ensure_pycode()
    home = os.path.join(WORK, 'home-%s-%d' % (tag, os.getpid()))
    shutil.rmtree(home, ignore_errors=True)
    shutil.copytree(tmpl, home)
    os.environ['HOME'] = home
    os.environ['NUMBA_CACHE_DIR'] = os.path.join(home, 'numba')
    # temporary files of the code under test (ANDES makes one log directory per logger configuration) go below the
    # worker's HOME and are removed with it instead of piling up in /tmp
    tmp = os.path.join(home, 'tmp')
    os.makedirs(tmp, exist_ok=True)
    os.environ['TMPDIR'] = tmp
    import tempfile
    tempfile.tempdir = tmp
    _worker_home = home
    atexit.register(shutil.rmtree, home, True)
    activate_repo()
    return home


def scratch_dir(name):
    """A scratch directory below the worker's HOME (removed with it)."""
    d = os.path.join(worker_home(), 'scratch', name)
    os.makedirs(d, exist_ok=True)
    return d


def quiet_andes():
    import logging
    import andes
    andes.main.config_logger(stream_level=50, file=False, log_path=os.environ.get('TMPDIR') or None)
    logging.getLogger('andes').setLevel(logging.CRITICAL)
    import warnings
    warnings.filterwarnings('ignore')
    import numpy as np
    np.seterr(all='ignore')


def cleanup_stale_homes(max_age_s=6 * 3600):
    if not os.path.isdir(WORK):
        return
    now = time.time()
    for d in os.listdir(WORK):
        if d.startswith('home-'):
            p = os.path.join(WORK, d)
            try:
                pid = int(d.rsplit('-', 1)[1])
                os.kill(pid, 0)
                alive = True
            except (ValueError, ProcessLookupError):
                alive = False
            except PermissionError:
                alive = True
            if not alive or now - os.path.getmtime(p) > max_age_s:
                shutil.rmtree(p, ignore_errors=True)


if __name__ == '__main__':
    print(ensure_pycode(verbose=True))
