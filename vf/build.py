"""Glue between plain-JSON cases and ANDES (the code under test)."""
import os

from . import sandbox

_rc_count = [0]

FIELDS = {
    'buses': ('Bus', ['idx', 'Vn', 'v0', 'a0', 'u']),
    'lines': ('Line', ['idx', 'bus1', 'bus2', 'Sn', 'Vn1', 'Vn2', 'r', 'x', 'b', 'g', 'b1', 'g1', 'b2', 'g2',
                       'tap', 'phi', 'u']),
    'shunts': ('Shunt', ['idx', 'bus', 'Sn', 'Vn', 'g', 'b', 'u']),
    'pqs': ('PQ', ['idx', 'bus', 'Vn', 'p0', 'q0', 'vmin', 'vmax', 'u']),
    'pvs': ('PV', ['idx', 'bus', 'Sn', 'Vn', 'p0', 'q0', 'v0', 'u']),
    'slacks': ('Slack', ['idx', 'bus', 'Sn', 'Vn', 'p0', 'q0', 'v0', 'a0', 'u']),
}


_model_cfg_defaults = {}


def model_config_defaults():
    """{model: OrderedDict(field -> default)} in declaration order (one default System per process)."""
    if not _model_cfg_defaults:
        import andes
        sandbox.quiet_andes()
        ss = andes.System(default_config=True, no_output=True)
        for name, m in ss.models.items():
            _model_cfg_defaults[name] = dict(m.config.as_dict())
        for name, r in ss.routines.items():
            _model_cfg_defaults.setdefault('routine:' + name, dict(r.config.as_dict()))
    return _model_cfg_defaults


def write_rc(sections):
    """Write a config file {section: {field: value}} into the worker's scratch; return its path.

    A model section is written with *all* its fields in declaration order: ANDES hashes the order of a
    model's config keys into its md5, so a partial section would make it regenerate that model's code.
    """
    if not sections:
        return None
    defaults = model_config_defaults()
    full = {}
    for sec, kv in sections.items():
        if sec in defaults:
            d = dict(defaults[sec])
            extra = {k: v for k, v in kv.items() if k not in d}
            d.update({k: v for k, v in kv.items() if k in d})
            d.update(extra)
            full[sec] = d
        else:
            full[sec] = kv
    sections = full
    d = sandbox.scratch_dir('rc')
    _rc_count[0] += 1
    p = os.path.join(d, 'andes-%d.rc' % _rc_count[0])
    with open(p, 'w') as fh:
        for sec, kv in sections.items():
            fh.write('[%s]\n' % sec)
            for k, v in kv.items():
                fh.write('%s = %s\n' % (k, v))
            fh.write('\n')
    return p


def new_system(rc=None, **kw):
    import andes
    sandbox.quiet_andes()
    path = write_rc(rc) if isinstance(rc, dict) else rc
    opts = dict(no_output=True)
    opts.update(kw)
    if path is None:
        return andes.System(default_config=True, **opts)
    return andes.System(config_path=path, **opts)


def load_case(path, rc=None, setup=True, **kw):
    """andes.load without touching the developer's rc file."""
    import andes
    sandbox.quiet_andes()
    rcpath = write_rc(rc) if isinstance(rc, dict) else rc
    opts = dict(no_output=True, setup=setup)
    opts.update(kw)
    if rcpath is None:
        return andes.load(path, default_config=True, **opts)
    return andes.load(path, config_path=rcpath, **opts)


def add_static(ss, case, permute=True):
    order = case.get('model_order') or list(FIELDS)
    if not permute:
        order = list(FIELDS)
    for key in order:
        model, fields = FIELDS[key]
        rows = case[key]
        perm = case.get('order', {}).get(key) if permute else None
        seq = perm if perm is not None and len(perm) == len(rows) else range(len(rows))
        for i in seq:
            row = rows[i]
            ss.add(model, {f: row[f] for f in fields if f in row})


def build_static(case, rc=None, permute=True, setup=True, **kw):
    cfg = dict(rc or {})
    sysc = dict(cfg.get('System', {}))
    sysc['mva'] = case['mva']
    cfg['System'] = sysc
    ss = new_system(cfg, **kw)
    add_static(ss, case, permute)
    if setup:
        ok = ss.setup()
        if not ok:
            raise RuntimeError('setup() returned False')
    return ss


def cases_root():
    import andes
    return os.path.join(os.path.dirname(os.path.abspath(andes.__file__)), 'cases')


def stock_cases(exts=('.xlsx', '.json', '.raw', '.m')):
    import andes
    root = cases_root()
    out = []
    for dp, dn, fn in sorted(os.walk(root)):
        for f in sorted(fn):
            if f.endswith(exts):
                out.append(os.path.join(dp, f))
    return out


# ---------------------------------------------------------------------------------------------
# generic row-level access: any loaded system <-> {model: [row dict, ...]}
# ---------------------------------------------------------------------------------------------

def rows_of(ss, vin=True):
    """Input rows of every populated model, in stored order, as plain Python values."""
    import numpy as np
    out = {}
    for name, mdl in ss.models.items():
        if mdl.n == 0:
            continue
        d = mdl.as_dict(vin=vin)
        rows = []
        for k in range(mdl.n):
            row = {}
            for f, col in d.items():
                if f == 'uid':
                    continue
                v = col[k]
                if isinstance(v, np.generic):
                    v = v.item()
                row[f] = v
            rows.append(row)
        out[name] = rows
    return out


def system_from_rows(rows, rc=None, order=None, model_order=None, setup=True, **kw):
    """Build a System by adding ``rows`` ({model: [row]}) in the given per-model order."""
    ss = new_system(rc, **kw)
    names = list(model_order) if model_order else list(rows)
    for name in names:
        rr = rows[name]
        seq = order.get(name) if order and name in order else range(len(rr))
        for k in seq:
            row = {f: v for f, v in rr[k].items() if not (isinstance(v, float) and v != v)}
            ss.add(name, row)
    if setup:
        ss.setup()
    return ss
