"""Property-based verification machinery for CURENT/Andes (see /verif/DESIGN.md)."""
