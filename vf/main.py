import os
import sys


def main(argv):
    if len(argv) < 2:
        sys.stderr.write('usage: check <Cxx> quick|thorough | check <Cxx> --replay <file>\n')
        return 2
    prop = argv[0].upper()
    from . import runner
    try:
        if argv[1] == '--replay':
            return runner.run_replay(prop, argv[2])
        tier = argv[1]
        if tier not in ('quick', 'thorough'):
            sys.stderr.write('unknown tier %r\n' % tier)
            return 2
        seed = int(os.environ.get('VERIF_SEED', '1') or 1)
        return runner.run_check(prop, tier, seed)
    except runner.HarnessError as e:
        sys.stderr.write('HARNESS ERROR: %s\n' % e)
        return 2
    except Exception:
        import traceback
        traceback.print_exc()
        return 2


if __name__ == '__main__':
    sys.exit(main(sys.argv[1:]))
