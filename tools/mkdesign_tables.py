#!/usr/bin/env python3
"""Regenerates the generated tables of DESIGN.md (between <!-- BEGIN x --> / <!-- END x --> markers) from
known_findings.json and seeded/RESULTS.json."""
import json
import os
import re

HERE = os.path.dirname(os.path.dirname(os.path.abspath(__file__)))


def esc(s):
    return str(s).replace('|', '/').replace('\n', ' ')


def findings_table():
    k = json.load(open(os.path.join(HERE, 'known_findings.json')))
    rows = ['| id | prop | disposition | what failed | witness |', '|---|---|---|---|---|']
    for f in k['findings']:
        disp = 'fixed in `%s`' % f['commit'] if f['status'] == 'fixed' else '**known** (reported as KNOWN-FINDING)'
        rows.append('| %s | %s | %s | %s | %s |' % (esc(f['id']), f['property'], disp, esc(f['what'])[:420], esc(f.get('witness', ''))))
    return '\n'.join(rows)


def sens_table(kind):
    p = os.path.join(HERE, 'seeded', 'RESULTS.json')
    if not os.path.exists(p):
        return '(no results yet)'
    r = json.load(open(p))
    metas = {}
    sd = os.path.join(HERE, 'seeded')
    for d in os.listdir(sd):
        mp = os.path.join(sd, d, 'meta.json')
        if os.path.exists(mp):
            metas[d] = json.load(open(mp))
    hand = {m['name']: m for m in json.load(open(os.path.join(sd, 'hand', 'mutants.json')))}
    rows = ['| change | what it does | checks run (quick tier) | detected by | clause(s) |', '|---|---|---|---|---|']
    for x in r['results']:
        if x['kind'] != kind:
            continue
        if kind == 'patch':
            what = metas.get(x['name'], {}).get('summary', '')[:260]
        else:
            what = hand.get(x['name'], {}).get('file', '') + (' (equivalent mutant)' if hand.get(x['name'], {}).get('equivalent') else '')
        det = [c for c, v in x['checks'].items() if v['detected']]
        cl = sorted(set(c for v in x['checks'].values() for c in v.get('clauses', [])))[:3]
        rows.append('| %s | %s | %s | %s | %s |' % (esc(x['name']), esc(what), ', '.join(x['checks']), ', '.join(det) if det else ('**not detected**' if 'error' not in x else 'error: ' + esc(x['error'])),
                                                 esc(', '.join(cl))))
    n = sum(1 for x in r['results'] if x['kind'] == kind)
    d = sum(1 for x in r['results'] if x['kind'] == kind and any(v['detected'] for v in x['checks'].values()))
    rows.append('')
    eq = sum(1 for x in r['results'] if x['kind'] == kind and hand.get(x['name'], {}).get('equivalent'))
    rows.append('%d of %d detected%s (repo head `%s`, quick tier, VERIF_SEED=1).' % (d, n, (' (%d equivalent)' % eq) if eq else '', r['repo_head']))
    return '\n'.join(rows)


def main():
    p = os.path.join(HERE, 'DESIGN.md')
    s = open(p).read()
    for name, text in (('findings', findings_table()), ('seeded', sens_table('patch')), ('hand', sens_table('edit'))):
        pat = re.compile(r'(<!-- BEGIN %s -->\n).*?(<!-- END %s -->)' % (name, name), re.S)
        if not pat.search(s):
            print('marker missing:', name)
            continue
        s = pat.sub(lambda m: m.group(1) + text + '\n' + m.group(2), s)
    open(p, 'w').write(s)


if __name__ == '__main__':
    main()
