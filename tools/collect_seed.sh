#!/bin/bash
# tools/collect_seed.sh C06-a : copy a sub-agent's deliverables from /tmp/seed/<id>/seed into seeded/<id>/ and drop its worktree
set -e
id=$1
src=/tmp/seed/$id/seed
dst=/verif/seeded/$id
mkdir -p $dst
git -C /tmp/seed/$id diff -- andes > $dst/patch.diff
cp $src/demo.py $dst/demo.py 2>/dev/null || true
cp $src/meta.json $dst/meta.json
git -C /repo worktree remove --force /tmp/seed/$id
git -C /repo worktree prune
rm -rf /tmp/seed/$id /tmp/seed/prompt-$id.txt
wc -l $dst/patch.diff
