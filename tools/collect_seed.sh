#!/bin/bash
# tools/collect_seed.sh C06-d        : copy a sub-agent's deliverables from /tmp/seed/<id> into seeded/<id>/ (worktree kept)
# tools/collect_seed.sh C06-d drop   : additionally record verify.json (tools/verify_seed.sh) and remove the scratch worktree
set -e
id=$1
src=/tmp/seed/$id/seed
dst=/verif/seeded/$id
mkdir -p $dst
git -C /tmp/seed/$id diff -- andes > $dst/patch.diff
cp $src/demo.py $dst/demo.py 2>/dev/null || true
cp $src/meta.json $dst/meta.json
if [ "$2" = "drop" ]; then
  cp $src/verify.json $dst/verify.json 2>/dev/null || true
  git -C /repo worktree remove --force /tmp/seed/$id
  git -C /repo worktree prune
  rm -rf /tmp/seed/$id /tmp/seed/prompt-$id.txt
fi
wc -l $dst/patch.diff
