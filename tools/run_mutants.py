#!/usr/bin/env python3
"""Sensitivity run: apply every hand-written mutant of seeded/hand/mutants.json (and every seeded/<id>/patch.diff)
to a scratch worktree of /repo under /tmp, run the quick tier of the listed checks against it, and record
which check reported a VIOLATION.  /repo is never touched.  Results: seeded/RESULTS.json (rewritten).

  tools/run_mutants.py [--only NAME_SUBSTRING] [--jobs 3] [--seeded-only | --hand-only]
"""
import argparse
import concurrent.futures as cf
import json
import os
import shutil
import subprocess
import sys
import time

HERE = os.path.dirname(os.path.dirname(os.path.abspath(__file__)))


def run_one(job):
    k, m = job
    wt = '/tmp/mutrun-%d-%d' % (os.getpid(), k)
    subprocess.run(['git', '-C', '/repo', 'worktree', 'add', '--detach', '-f', wt, 'HEAD'], check=True,
                   stdout=subprocess.DEVNULL, stderr=subprocess.DEVNULL)
    res = dict(name=m['name'], kind=m['kind'], checks={})
    try:
        if m['kind'] == 'patch':
            r = subprocess.run(['git', '-C', wt, 'apply', m['patch']], capture_output=True, text=True)
            if r.returncode:
                res['error'] = 'patch does not apply: ' + r.stderr[-300:]
                return res
        else:
            p = os.path.join(wt, m['file'])
            s = open(p).read()
            if s.count(m['old']) != m.get('count', 1):
                res['error'] = 'old text found %d times' % s.count(m['old'])
                return res
            open(p, 'w').write(s.replace(m['old'], m['new']))
        for c in m['checks']:
            # per-mutant work area so that concurrent runs of the same check do not share evidence / violation files
            env = dict(os.environ, VERIF_REPO=wt, VERIF_KEEP_PC='10', VERIF_OUT=os.path.join('/tmp', 'mutout-%d-%d' % (os.getpid(), k)))
            t0 = time.time()
            r = subprocess.run([os.path.join(HERE, 'check'), c, 'quick'], env=env, cwd=HERE, stdout=subprocess.PIPE,
                               stderr=subprocess.DEVNULL, text=True)
            clauses = sorted(set(ln.split('clause=')[1].split(' ')[0] for ln in r.stdout.splitlines() if ln.startswith('  clause=')))
            res['checks'][c] = dict(rc=r.returncode, detected=r.returncode == 1, clauses=clauses[:6], wall_s=round(time.time() - t0))
    finally:
        subprocess.run(['git', '-C', '/repo', 'worktree', 'remove', '--force', wt], stdout=subprocess.DEVNULL, stderr=subprocess.DEVNULL)
        shutil.rmtree(wt, ignore_errors=True)
        shutil.rmtree(os.path.join('/tmp', 'mutout-%d-%d' % (os.getpid(), k)), ignore_errors=True)
    return res


def main():
    ap = argparse.ArgumentParser()
    ap.add_argument('--only')
    ap.add_argument('--jobs', type=int, default=1)
    ap.add_argument('--seeded-only', action='store_true')
    ap.add_argument('--hand-only', action='store_true')
    a = ap.parse_args()
    jobs = []
    if not a.seeded_only:
        for m in json.load(open(os.path.join(HERE, 'seeded', 'hand', 'mutants.json'))):
            jobs.append(dict(m, kind='edit'))
    if not a.hand_only:
        sd = os.path.join(HERE, 'seeded')
        for d in sorted(os.listdir(sd)):
            meta = os.path.join(sd, d, 'meta.json')
            if d != 'hand' and os.path.exists(meta):
                mt = json.load(open(meta))
                jobs.append(dict(name=d, kind='patch', patch=os.path.join(sd, d, 'patch.diff'), checks=mt.get('run_checks') or [mt['property']]))
    if a.only:
        import re
        jobs = [j for j in jobs if re.search(a.only, j['name'])]
    out_path = os.path.join(HERE, 'seeded', 'RESULTS.json')
    new = {}
    with cf.ThreadPoolExecutor(a.jobs) as ex:
        for r in ex.map(run_one, list(enumerate(jobs))):
            new[r['name']] = r
            det = [c for c, v in r['checks'].items() if v['detected']]
            print('%-70s %s' % (r['name'][:70], ('DETECTED by ' + ','.join(det)) if det else ('ERROR ' + r['error'] if 'error' in r else 'NOT DETECTED')), flush=True)
    # merge into the file as it is now (other runs may have written meanwhile)
    old = {}
    if os.path.exists(out_path):
        old = {r['name']: r for r in json.load(open(out_path))['results']}
    old.update(new)
    # results of mutants that are no longer defined are dropped
    defined = set(m['name'] for m in json.load(open(os.path.join(HERE, 'seeded', 'hand', 'mutants.json'))))
    defined |= set(d for d in os.listdir(os.path.join(HERE, 'seeded')) if os.path.exists(os.path.join(HERE, 'seeded', d, 'meta.json')))
    old = {k: v for k, v in old.items() if k in defined}
    head = subprocess.run(['git', '-C', '/repo', 'rev-parse', '--short', 'HEAD'], capture_output=True, text=True).stdout.strip()
    json.dump(dict(repo_head=head, tier='quick', results=sorted(old.values(), key=lambda r: r['name'])), open(out_path, 'w'), indent=1)
    return 0


if __name__ == '__main__':
    sys.exit(main())
