#!/bin/bash
# Runs the repository's pinned test suite with the verification guard OFF and
# compares the passing set with /root/.vp/BASELINE.json (stable_pass). Exit 0 iff all 77 pass.
unset CURENT_ANDES_VERIF
OUT=${1:-/tmp/andes-baseline-$$.xml}
cd /repo && /venv/bin/python -m pytest -ra -q -p no:cacheprovider --timeout=900 --continue-on-collection-errors --junitxml="$OUT" > "${OUT%.xml}.log" 2>&1
/venv/bin/python - "$OUT" <<'PY'
import json, sys, xml.etree.ElementTree as ET
base = json.load(open('/root/.vp/BASELINE.json'))
want = set(base['stable_pass'])
root = ET.parse(sys.argv[1]).getroot()
passed = set()
for tc in root.iter('testcase'):
    if not any(ch.tag in ('failure', 'error', 'skipped') for ch in tc):
        passed.add('%s::%s' % (tc.get('classname'), tc.get('name')))
missing = sorted(want - passed)
print('baseline: %d of %d stable tests pass' % (len(want & passed), len(want)))
for m in missing:
    print('  NOT PASSING:', m)
sys.exit(1 if missing else 0)
PY
rc=$?
rm -f "$OUT"
exit $rc
