#!/usr/bin/env python3
"""Regenerates /verif/MANIFEST.json from the table below (kept valid at all times)."""
import json
import os

HERE = os.path.dirname(os.path.dirname(os.path.abspath(__file__)))

CHECKS = {}


def check(pid, technique, text, note, design_ref):
    CHECKS[pid] = dict(
        property_id=pid,
        quick_cmd='./check %s quick' % pid,
        thorough_cmd='./check %s thorough' % pid,
        evidence_file='evidence/%s.json' % pid,
        replay_cmd_template='./check %s --replay {path}' % pid,
        engine='vf',
        level_claimed=dict(category='exploration', text=text, design_ref=design_ref),
        level_note=note,
        technique=technique,
    )


check('C01',
      'property-based testing (Hypothesis): generated networks x PFlow configurations against an independent '
      'pi-model nodal-balance oracle, an independent dense Newton for the convergence clause, and metamorphic '
      'twins (device order, idx type, device/system re-basing); plus the oracle over all stock static cases',
      'Generated-input search with an independent reference: every generated network that ANDES reports as '
      'converged is re-checked bus by bus from the input data; a violation is shrunk to a replay file. '
      'Sampling, not proof: it shows absence of violations only on the explored networks/configurations.',
      'Trusted: the oracle in vf/oracle/pf.py (written from the physics, no ANDES import), numpy. Transformer '
      'convention as documented by ANDES (MATPOWER). Convergence demanded only where the independent Newton '
      'solves the data with all |V| in [0.9, 1.1].',
      'DESIGN.md 7 C01')

check('C02',
      'exhaustive enumeration of all shipped models and declared strings x property-based argument points '
      '(Hypothesis); differential oracle: direct Python evaluation of each declared string vs the generated '
      'function executed through the model call path; regeneration under a different PYTHONHASHSEED compared '
      'function by function; injected staleness (altered declaration) must trigger regeneration; the order of the generated '
      'initialisation sequence vs the value dependencies of the declared initialisers (exhaustive over models)',
      'Differential testing against an independent evaluator over an exhaustively enumerated outer domain '
      '(97 models, ~2750 strings) and sampled argument points incl. piecewise break-points and complex services. '
      'Algebraic identities checked at many random points; not a proof.',
      'Trusted: vf/oracle/pyeval.py (Python parser + numpy), numpy. Hand-written numeric hooks have no declared '
      'string and are outside the oracle. Points where the declared string is non-finite are not judged.',
      'DESIGN.md 7 C02')

check('C03',
      'exhaustive enumeration of all shipped models x property-based argument points: the model\'s own '
      'pattern/value triplets vs Richardson finite differences of the declared strings (independent evaluator), '
      'with completeness of the pattern; plus assembled systems at generated operating points '
      '(stock cases x {after PF init, PF solution, TDS init, mid/after disturbed run} x outages x ipadd) vs finite '
      'differences of the assembled residual, pattern constancy, islanded-bus patch',
      'Differential testing of symbolic derivatives against numerical derivatives of an independently evaluated '
      'residual (model level) and of the assembled residual (system level). Sampled points; kinks and '
      'ill-conditioned entries are skipped and counted.',
      'Trusted: vf/oracle/pyeval.py, finite differences with stated step and tolerance (2e-5 relative). '
      'Discrete flags and VarServices are frozen during a sweep (closed-form rule of the property). '
      'Rows of anti-windup-pegged states are skipped.',
      'DESIGN.md 7 C03')

check('C18',
      'exhaustive enumeration of the 25 linear block classes x property-based parameter tuples and complex '
      'frequencies (Hypothesis): the exported equation strings (through a real owner Model) are evaluated by the '
      'independent evaluator at unit vectors, the Laplace-domain linear system is solved and y/u compared with the '
      'documented transfer function; steady-state balance of declared initial values; limited variants inside limits; block '
      'arguments given as symbols or as equation strings',
      'Algebraic identity testing at random points (Schwartz-Zippel style) against transfer functions typed in '
      'from the documentation; every documented zero-time-constant bypass is a generated class.',
      'Trusted: the table of documented transfer functions in vf/props/c18.py, numpy linear solve, relative 1e-9. '
      'Zero-out flags come from the real LessThan.check_var.',
      'DESIGN.md 7 C18')

check('C20',
      'property-based testing (Hypothesis) over the enumerated catalogue of all configuration fields '
      '(System, routines, models) x supply channels (rc file, option string, both, dict): field-by-field comparison '
      'with a coercion/precedence reference model, defaults of all unassigned fields, use sites, save->load round trip, '
      'rejection of invalid alternatives and malformed option strings; a second system from the same file must not inherit '
      'the first one\'s options; plus one exhaustive pass over every field',
      'Reference-model comparison over generated configurations; every field is exercised at least once per run '
      'through the file channel (all sections) and the option channel (System and routines).',
      'Trusted: the 3-line coercion oracle (int, then float, else str) and the precedence rule as documented.',
      'DESIGN.md 7 C20')

check('C19',
      'stateful property-based testing (Hypothesis RuleBasedStateMachine): generated histories of device additions '
      'across the models of multi-model groups with explicit/missing/colliding/auto-pattern idx and dangling '
      'references, interleaved find_idx queries, then setup(); invariants from the machine\'s own tables: idx '
      'uniqueness, find_idx == list comprehension, BackRef multisets, find-or-add helpers, dangling references (mandatory, and '
      'optional ones that are given) reported',
      'Model-based testing: the reference model is the list of rows the machine added; every invariant is '
      'recomputed from it after each rule.',
      'Trusted: the machine\'s row tables. Covers 16 models of 9 groups (not every model of the library).',
      'DESIGN.md 7 C19')

check('C10',
      'property-based testing (Hypothesis): stock cases re-built from their own rows with drawn insertion order, '
      'consistent idx renaming (int<->str), collated storage for drawn models, plus generated networks; '
      'set-theoretic oracle on both addressing phases (disjoint/complete slots, slot names, phase-1 addresses '
      'kept), external links resolved through an independent idx->(model, position) dictionary, and '
      'Model.get / Group.get / global-vector reads compared',
      'Invariant checking over generated systems: the bijection and link-follows-idx statements are recomputed from '
      'first principles for every internal/external variable and external parameter of every populated model.',
      'Trusted: the row tables read back from the loaded case (as_dict), the renaming transformation in vf/props/c10.py.',
      'DESIGN.md 7 C10')

check('C11',
      'property-based testing (Hypothesis): (a) stock cases with every device/bus/system base multiplied by drawn '
      'factors vs textbook per-unit ratios for every flagged parameter; (b) generated operation histories '
      '(alter via model/group in both bases, set, reset, power flow, TDS init, json/xlsx dump->reload) checked step by '
      'step against the history\'s own (vin, v) table, time-constant propagation, and the metamorphic twin '
      '\'alter then simulate == load altered file then simulate\'',
      'Reference-model comparison along generated histories; the exported file and a re-simulated twin are the '
      'independent observers of the altered value.',
      'Trusted: vf/oracle/pu.py (ratios), the base-selection convention documented by ANDES, json/xlsx readers of ANDES for reload.',
      'DESIGN.md 7 C11')

check('C12',
      'property-based testing (Hypothesis): generated multigraphs over Line/Jumper with drawn statuses, slack placement '
      'and devices; union-find oracle for islands / isolated buses / slack classification; metamorphic neutralisation '
      '(delete the isolated buses: same convergence and voltages); bus switch-off histories (set/alter, batched or '
      'sequential) vs the reference set of attached devices; Toggle events during simulation re-check the islands',
      'Independent graph oracle on generated topologies plus a metamorphic relation for neutralisation.',
      'Trusted: union-find in vf/props/c12.py; the list of dependent groups documented in connman.py.',
      'DESIGN.md 7 C12')

check('C04',
      'property-based testing (Hypothesis): stock and generated disturbance schedules x integration configurations; '
      'a callpert/dae.store monitor records every attempt and every accepted point; oracle = the integration rule '
      'written out from the property text with a row-wise Newton bound (sharp on tight-tolerance runs), algebraic '
      'residual bound, bitwise restoration + exact rewind after rejected attempts, step-size and end-time clauses, '
      'completion of stock stable cases, and error-ratio under step halving against a 16x finer run',
      'Invariant checking over every accepted step of generated runs plus a metamorphic convergence-order check.',
      'Trusted: the monitor wrappers in vf/sim.py; f1 is the solver-held derivative (one iterate behind x1), covered '
      'by the bound 2*tol*sum|Ac_ij|; anti-windup pegged states exempt.',
      'DESIGN.md 7 C04')

check('C06',
      'property-based testing (Hypothesis): generated event schedules (Toggle/Fault/Alter/time-series stamps, enabled/disabled, times rounded or with all binary digits, time '
      'classes incl. t0, tf, beyond tf, >10 s, coincident and near-coincident pairs, segment boundaries) x step size x '
      'fixed/variable step x resumed segments; wrapped timer callbacks and per-step sampling of the targeted fields; '
      'oracle = pure-Python schedule model (exactly-once firing at the exact time, fold of effects, no change elsewhere) '
      'and time-grid invariants',
      'Model-based testing of the event machinery: the reference is a fold over the generated schedule.',
      'Trusted: vf/sim.py wrappers; when a run stops early only events before the last accepted time are judged.',
      'DESIGN.md 7 C06')

check('C14',
      'property-based testing (Hypothesis): generated interruption histories (resume by extending tf, snapshot -> load '
      'in-process, snapshot -> load in a fresh process) at times drawn around events and off the grid, against an '
      'uninterrupted twin and a half-step twin; oracle: firing multisets equal, time axis strictly increasing and '
      'containing every boundary, trajectory within the discretisation estimate, snapshot continuation bitwise equal '
      'to the in-process continuation; reset()+power flow reproduces the first solution on stock cases',
      'Metamorphic testing: split run == single run (up to the measured discretisation error), restored run == '
      'continued run (bitwise).',
      'Trusted: vf/sim.py wrappers (detached before pickling); dill snapshots as produced by ANDES.',
      'DESIGN.md 7 C14')

check('C15',
      'property-based testing (Hypothesis): generated output configurations (Output selections incl. invalid names, '
      'save_every, limit_store/max_store, resumed runs) with files enabled; two independent recorders (attempt log and '
      'dae.store wrapper); oracle: memory series, npz (plain numpy), lst (own parser), TDSData file mode, csv export, csv '
      'replay, get_data and find must contain exactly the recorded rows in columns labelled with the owner of the address',
      'Differential testing of every output channel against an independent in-process recording of the accepted steps.',
      'Trusted: vf/sim.py recorder; numpy npz/csv readers; the slot-owner naming oracle (checked against the models in C10).',
      'DESIGN.md 7 C15')

check('C09',
      'property-based testing (Hypothesis): the output of hard-limited blocks under every sign convention against R*clip(K*u, lo, up); rate limiters with per-device enable conditions; memory-less discrete components on generated (input, limits, signs, equal, '
      'one-sided) tuples incl. boundaries and coinciding limits vs reference comparisons; stateful machine for the '
      'history components (Delay, Average, Derivative, Sampling) with the integrator\'s three actions (advance, '
      're-evaluate, rewind) vs a reference computed from the accepted input history; simulation runs with tightened '
      'limits checking bounds, pegging (x at limit, f = 0) and one-hot flags at every stored step',
      'Reference-model and invariant checking at component level, invariant checking over stored simulation steps.',
      'Trusted: the reference semantics typed from the class docstrings in vf/props/c09.py; vf/sim.py recorder.',
      'DESIGN.md 7 C09')

check('C05',
      'property-based testing (Hypothesis): every loadable stock dynamic case plus generated variants (every dynamic model class out of service once against the case as it is, drawn load-composition weights, degenerate data, devices offline, '
      'machines split with consistent / inconsistent split factors, limits below the operating point); oracle: verdict '
      'consistency (test_ok iff recomputed residuals < tol, failure raises the exit code), success under harness-evaluated '
      'preconditions, bus voltages bitwise equal to the power flow, dynamic injections equal the static generator\'s '
      'power, static generator switched off, undisturbed 1 s run stays put; coverage table of model classes',
      'Invariant checking over generated model combinations; the undisturbed run is the independent witness of equilibrium.',
      'Trusted: the routine\'s residual evaluation for the verdict-consistency clause (a different code path than test_init), '
      'preconditions evaluated by the harness (limiter flags, split factors, InitCheckers, islands, online references).',
      'DESIGN.md 7 C05')

check('C07',
      'property-based testing (Hypothesis): (a) generated single-machine-infinite-bus systems with line-switching '
      'schedules vs an independent swing-equation reference (scipy solve_ivp, own nodal solution), convergence under step '
      'halving for both integration methods; (b) stock cases kicked by a 5-20 ms line trip vs the matrix-exponential '
      'response of an independently reduced linearisation, and perturbed along drawn directions of the state space',
      'Differential testing against an independent high-accuracy reference and against the system\'s own linearisation.',
      'Trusted: vf/oracle/smib.py (no ANDES import), scipy integrators and expm; the Jacobians used for (b) are those '
      'checked by C03. (b) only judged for small kicks without limiter activity.',
      'DESIGN.md 7 C07')

check('C08',
      'property-based testing (Hypothesis): generated DAE blocks (incl. any number/position of zero time constants and '
      'eigenvalues planted around the zero band) fed to the routine\'s methods, and EIG.run() on stock cases (also after '
      'zeroing a time constant / sweeping inertia); oracle: dense Schur-complement / QZ reference spectrum as multiset, '
      'state-matrix formula, count partition, participation-factor normalisation',
      'Differential testing against an independent dense reference on generated matrices.',
      'Trusted: numpy/scipy dense linear algebra; comparisons scaled by the eigenvector condition number.',
      'DESIGN.md 7 C08')

check('C16',
      'property-based testing (Hypothesis): generated call sequences on one Solver instance per back-end (pattern/value '
      'changes, tiny non-zero diagonals that need pivoting, singular matrices, refresh flags, clear) run in a journalled child process vs dense numpy residuals; stock '
      'cases under drawn back-end configurations vs the klu reference (power flow, trajectory, eigenvalues); fresh-process '
      'repetition under different hash seeds must be bit-identical',
      'Stateful differential testing of the solver wrapper and metamorphic comparison across interchangeable back-ends.',
      'Trusted: numpy dense residual; CuPy back-end unavailable; SciPy solve() only judged when a refresh was requested.',
      'DESIGN.md 7 C16')

check('C13',
      'property-based testing (Hypothesis): xlsx/json dump->load round trips of stock and generated cases compared field '
      'by field and by power-flow solution; generated networks written by independent RAW v33 / MATPOWER writers (CW 1-3, '
      'CZ 1-2, line shunts, non-100 MVA bases, several loads per bus, offline devices, string idx) and loaded by ANDES vs '
      'the natively added system and the independent nodal-balance oracle; system2mpc->mpc2system; stock .raw/.m files vs '
      'an independent reading of the same text; stock raw+dyr pairs and generated dyr files (independent DYR writer/reader '
      'with 18 record layouts typed in from the PSS/E data sheets) vs the devices ANDES creates, parameter by parameter',
      'Round-trip and differential testing across formats with independent writers/readers.',
      'Trusted: vf/oracle/rawio.py (writers/readers typed from the format descriptions), vf/oracle/pf.py. RAW subset: '
      'winding 2 at nominal ratio, no magnetising admittance; DYR: the 18 record layouts of vf/oracle/dyrio.py '
      '(other PSS/E models are counted, not judged).',
      'DESIGN.md 7 C13')

check('C17',
      'property-based fault injection (Hypothesis): generated networks x injected infeasibility (overload, no slack, island '
      'without slack, zero impedance, NaN/inf datum, iteration limit, tolerance) with a two-sided oracle (True => finite '
      'state + independent nodal balance + exit code 0; False => exit code != 0, dependents refuse and leave the state '
      'alone); stock dynamic cases x destabilising schedules/configurations/inconsistent dynamic data with a per-attempt '
      'step log; stateful machine (RuleBasedStateMachine) over routine sequences with a failure model; andes.run(cli=True) '
      'over good/infeasible/unstable/missing/empty/truncated/garbage files, single and multi-case, Process and Pool',
      'Fault injection with a two-sided oracle; stateful sequences against a failure model; CLI exit-code differential.',
      'Trusted: vf/oracle/pf.py (balance), the harness wrappers of TDS.itm_step / dae.store. An exception is accepted as a '
      'report of failure except from a dependent routine after a failed power flow. Steps accepted by the documented '
      'chattering rule are counted, not judged. Exact-zero impedance: flags only.',
      'DESIGN.md 7 C17')

NOT_BUILT = 'check not built yet in this round (machinery in progress; see DESIGN.md section 10 build order)'
ALL = ['C%02d' % i for i in range(1, 21)]

manifest = dict(
    version=1,
    setup_cmd='bash setup.sh',
    hooks=dict(guard='CURENT_ANDES_VERIF',
               enable='no source hooks are needed: all observation uses public extension points '
                      '(TDS.callpert, wrapped bound methods) from inside the harness process',
               baseline_off_cmd='bash tools/baseline.sh',
               source_commits=[],
               add_only=True),
    engines=[dict(name='vf', path='vf/', serves_properties=sorted(CHECKS),
                  kind_free_text='Hypothesis-driven property-based testing / stateful testing with independent '
                                 'oracles; sharded subprocess workers; shrunk failures become replay files')],
    checks=[CHECKS[k] for k in sorted(CHECKS)],
    not_applicable=[dict(property_id=p, reason=NOT_BUILT) for p in ALL if p not in CHECKS],
    notes='All checks: ./check <id> quick|thorough; VERIF_SEED selects the Hypothesis seed; exit 0 held / 1 VIOLATION / '
          '2 harness error. known_findings.json lists genuine defects (fixed by fix: commits in /repo, or known).',
)

with open(os.path.join(HERE, 'MANIFEST.json'), 'w') as fh:
    json.dump(manifest, fh, indent=1)
print('MANIFEST.json written: %d checks, %d not_applicable' % (len(manifest['checks']), len(manifest['not_applicable'])))
