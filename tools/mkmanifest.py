#!/usr/bin/env python3
"""Regenerates /verif/MANIFEST.json from the table below (kept valid at all times)."""
import json
import os

HERE = os.path.dirname(os.path.dirname(os.path.abspath(__file__)))

CHECKS = {}


def check(pid, technique, text, note, design_ref):
    CHECKS[pid] = dict(
        property_id=pid,
        quick_cmd='./check %s quick' % pid,
        thorough_cmd='./check %s thorough' % pid,
        evidence_file='evidence/%s.json' % pid,
        replay_cmd_template='./check %s --replay {path}' % pid,
        engine='vf',
        level_claimed=dict(category='exploration', text=text, design_ref=design_ref),
        level_note=note,
        technique=technique,
    )


check('C01',
      'property-based testing (Hypothesis): generated networks x PFlow configurations against an independent '
      'pi-model nodal-balance oracle, an independent dense Newton for the convergence clause, and metamorphic '
      'twins (device order, idx type, device/system re-basing); plus the oracle over all stock static cases',
      'Generated-input search with an independent reference: every generated network that ANDES reports as '
      'converged is re-checked bus by bus from the input data; a violation is shrunk to a replay file. '
      'Sampling, not proof: it shows absence of violations only on the explored networks/configurations.',
      'Trusted: the oracle in vf/oracle/pf.py (written from the physics, no ANDES import), numpy. Transformer '
      'convention as documented by ANDES (MATPOWER). Convergence demanded only where the independent Newton '
      'solves the data with all |V| in [0.9, 1.1].',
      'DESIGN.md 7 C01')

check('C02',
      'exhaustive enumeration of all shipped models and declared strings x property-based argument points '
      '(Hypothesis); differential oracle: direct Python evaluation of each declared string vs the generated '
      'function executed through the model call path; regeneration under a different PYTHONHASHSEED compared '
      'function by function; injected staleness (altered declaration) must trigger regeneration',
      'Differential testing against an independent evaluator over an exhaustively enumerated outer domain '
      '(97 models, ~2750 strings) and sampled argument points incl. piecewise break-points and complex services. '
      'Algebraic identities checked at many random points; not a proof.',
      'Trusted: vf/oracle/pyeval.py (Python parser + numpy), numpy. Hand-written numeric hooks have no declared '
      'string and are outside the oracle. Points where the declared string is non-finite are not judged.',
      'DESIGN.md 7 C02')

check('C03',
      'exhaustive enumeration of all shipped models x property-based argument points: the model\'s own '
      'pattern/value triplets vs Richardson finite differences of the declared strings (independent evaluator), '
      'with completeness of the pattern; plus assembled systems at generated operating points '
      '(stock cases x {after PF init, PF solution, TDS init, mid/after disturbed run} x outages x ipadd) vs finite '
      'differences of the assembled residual, pattern constancy, islanded-bus patch',
      'Differential testing of symbolic derivatives against numerical derivatives of an independently evaluated '
      'residual (model level) and of the assembled residual (system level). Sampled points; kinks and '
      'ill-conditioned entries are skipped and counted.',
      'Trusted: vf/oracle/pyeval.py, finite differences with stated step and tolerance (2e-5 relative). '
      'Discrete flags and VarServices are frozen during a sweep (closed-form rule of the property). '
      'Rows of anti-windup-pegged states are skipped.',
      'DESIGN.md 7 C03')

NOT_BUILT = 'check not built yet in this round (machinery in progress; see DESIGN.md section 10 build order)'
ALL = ['C%02d' % i for i in range(1, 21)]

manifest = dict(
    version=1,
    setup_cmd='bash setup.sh',
    hooks=dict(guard='CURENT_ANDES_VERIF',
               enable='no source hooks are needed: all observation uses public extension points '
                      '(TDS.callpert, wrapped bound methods) from inside the harness process',
               baseline_off_cmd='bash tools/baseline.sh',
               source_commits=[],
               add_only=True),
    engines=[dict(name='vf', path='vf/', serves_properties=sorted(CHECKS),
                  kind_free_text='Hypothesis-driven property-based testing / stateful testing with independent '
                                 'oracles; sharded subprocess workers; shrunk failures become replay files')],
    checks=[CHECKS[k] for k in sorted(CHECKS)],
    not_applicable=[dict(property_id=p, reason=NOT_BUILT) for p in ALL if p not in CHECKS],
    notes='All checks: ./check <id> quick|thorough; VERIF_SEED selects the Hypothesis seed; exit 0 held / 1 VIOLATION / '
          '2 harness error. known_findings.json lists genuine defects (fixed by fix: commits in /repo, or known).',
)

with open(os.path.join(HERE, 'MANIFEST.json'), 'w') as fh:
    json.dump(manifest, fh, indent=1)
print('MANIFEST.json written: %d checks, %d not_applicable' % (len(manifest['checks']), len(manifest['not_applicable'])))
