#!/bin/bash
# tools/verify_seed.sh C06-d : confirm a sub-agent's seeded change in its own scratch worktree /tmp/seed/<id>:
#   demo exits 1 with the change, 0 without it, and the pinned test suite still passes with it.  Writes seed/verify.json.
id=$1
wt=/tmp/seed/$id
export HOME=$wt/home PYTHONPATH=$wt
cd $wt || exit 2
git -C $wt diff -- andes > $wt/seed/p.patch
[ -s $wt/seed/p.patch ] || { echo "$id: empty patch"; exit 2; }
regen() { if grep -q "symprocessor\|andes/core/block.py\|printer" $wt/seed/p.patch; then /venv/bin/python -m andes prepare -q >/dev/null 2>&1; fi; }
regen
timeout 1500 /venv/bin/python seed/demo.py > seed/demo_changed.log 2>&1; rc_changed=$?
git -C $wt apply -R $wt/seed/p.patch || exit 2
regen
timeout 1500 /venv/bin/python seed/demo.py > seed/demo_unchanged.log 2>&1; rc_unchanged=$?
git -C $wt apply $wt/seed/p.patch || exit 2
regen
if [ "$2" != "notests" ]; then
  timeout 3000 /venv/bin/python -m pytest -q -p no:cacheprovider --timeout=900 tests > seed/pytest.log 2>&1
  summary=$(tail -1 seed/pytest.log)
  failed=$(grep -E "^FAILED" seed/pytest.log | grep -v "test_make_GSF\|test_to_pandapower" | wc -l)
else
  summary="not run"; failed=-1
fi
printf '{"id": "%s", "demo_rc_changed": %d, "demo_rc_unchanged": %d, "pytest_summary": "%s", "unexpected_test_failures": %d}\n' "$id" $rc_changed $rc_unchanged "$summary" $failed > seed/verify.json
cat seed/verify.json
