#!/usr/bin/env python3
"""Sensitivity testing: apply a small edit (or a patch) to a scratch worktree of /repo and run checks on it.

  tools/mutate.py --file andes/x.py --old 'a + b' --new 'a - b' [--count 1] -- C02 quick [-- C03 quick]
  tools/mutate.py --patch seeded/foo/patch.diff -- C06 quick

The worktree lives under /tmp and is removed afterwards; /repo is never touched.
Exit status: 0 if at least one check reported a VIOLATION (mutant detected), 3 if none did.
"""
import argparse
import os
import shutil
import subprocess
import sys

HERE = os.path.dirname(os.path.dirname(os.path.abspath(__file__)))


def main():
    ap = argparse.ArgumentParser()
    ap.add_argument('--file')
    ap.add_argument('--old')
    ap.add_argument('--new')
    ap.add_argument('--count', type=int, default=1)
    ap.add_argument('--patch')
    ap.add_argument('--keep', action='store_true')
    ap.add_argument('rest', nargs=argparse.REMAINDER)
    a = ap.parse_args()
    checks, cur = [], []
    for tok in a.rest:
        if tok == '--':
            if cur:
                checks.append(cur)
            cur = []
        else:
            cur.append(tok)
    if cur:
        checks.append(cur)
    wt = '/tmp/mut-%d' % os.getpid()
    subprocess.run(['git', '-C', '/repo', 'worktree', 'add', '--detach', '-f', wt, 'HEAD'], check=True,
                   stdout=subprocess.DEVNULL, stderr=subprocess.DEVNULL)
    detected = False
    try:
        if a.patch:
            subprocess.run(['git', '-C', wt, 'apply', os.path.abspath(a.patch)], check=True)
        else:
            p = os.path.join(wt, a.file)
            s = open(p).read()
            n = s.count(a.old)
            if n != a.count:
                print('mutate: expected %d occurrence(s) of the old text, found %d' % (a.count, n))
                return 2
            open(p, 'w').write(s.replace(a.old, a.new))
        out = '/tmp/mutout-%d' % os.getpid()
        env = dict(os.environ, VERIF_REPO=wt, VERIF_OUT=out)      # evidence / v-files of the mutant run go to a scratch dir
        for c in checks:
            r = subprocess.run([os.path.join(HERE, 'check')] + c, env=env, cwd=HERE, stdout=subprocess.PIPE,
                               stderr=subprocess.STDOUT, text=True)
            lines = [ln for ln in r.stdout.splitlines() if ln.startswith(('VIOLATION', 'KNOWN', '  clause', 'C', 'HARNESS'))]
            print('--- %s -> rc=%d' % (' '.join(c), r.returncode))
            for ln in lines[-8:]:
                print('    ' + ln[:400])
            if r.returncode == 1:
                detected = True
            elif r.returncode == 2:
                print(r.stdout[-1500:])
    finally:
        if not a.keep:
            shutil.rmtree('/tmp/mutout-%d' % os.getpid(), ignore_errors=True)
            subprocess.run(['git', '-C', '/repo', 'worktree', 'remove', '--force', wt],
                           stdout=subprocess.DEVNULL, stderr=subprocess.DEVNULL)
            shutil.rmtree(wt, ignore_errors=True)
            subprocess.run(['git', '-C', '/repo', 'worktree', 'prune'])
    print('MUTANT %s' % ('DETECTED' if detected else 'NOT DETECTED'))
    return 0 if detected else 3


if __name__ == '__main__':
    sys.exit(main())
